//! "Real peers" (workload R): ordinary `#[derive(Serialize, Deserialize)]` types — including serde
//! attributes outside the stub grammar (`flatten`, `untagged`, internally / adjacently tagged,
//! `default`, `rename_all`, `skip_serializing_if`) and `HashMap` fields, whose iteration order is
//! the environment's choice — driven through the same seams, faults and oracles as the stub peers.
//! A scenario is (family, value seed, size): the value is a pure function of those.

use crate::c07::{run_serializer, SerOut};
use crate::common::*;
use crate::dynpeer::with_cx;
use crate::rng::Rng;
use crate::routes::*;
use crate::seam::*;
use crate::types::Tree;
use serde::{de::DeserializeOwned, Deserialize, Serialize};
use std::collections::{BTreeMap, HashMap};
use std::fmt::Debug;
use std::panic::{catch_unwind, AssertUnwindSafe};

// ---------------------------------------------------------------- the family

#[derive(Serialize, Deserialize, Debug, PartialEq, Clone)]
#[serde(untagged)]
pub enum Scalar {
    B(bool),
    I(i64),
    F(f64),
    S(String),
}

#[derive(Serialize, Deserialize, Debug, PartialEq, Clone)]
pub struct Inner {
    x: i32,
    y: Option<String>,
}

#[derive(Serialize, Deserialize, Debug, PartialEq, Clone)]
pub struct Flat {
    name: String,
    #[serde(default)]
    port: u16,
    opt: Option<Inner>,
    #[serde(flatten)]
    extra: BTreeMap<String, Scalar>,
}

#[derive(Serialize, Deserialize, Debug, PartialEq, Clone)]
#[serde(tag = "type")]
pub enum Shape {
    Circle { r: f64 },
    Rect { w: u32, h: u32 },
    Unit,
}
#[derive(Serialize, Deserialize, Debug, PartialEq, Clone)]
pub struct Shapes {
    main: Shape,
    all: Vec<Shape>,
    by_name: BTreeMap<String, Shape>,
}

#[derive(Serialize, Deserialize, Debug, PartialEq, Clone)]
#[serde(tag = "t", content = "c")]
pub enum Adj {
    A(i32),
    B(String, bool),
    C { x: i8 },
    D,
}
#[derive(Serialize, Deserialize, Debug, PartialEq, Clone)]
pub struct Adjs {
    one: Adj,
    many: Vec<Adj>,
}

#[derive(Serialize, Deserialize, Debug, PartialEq, Clone)]
pub struct Hashes {
    m: HashMap<String, i32>,
    n: HashMap<String, Inner>,
    v: Vec<HashMap<String, String>>,
    last: bool,
}

#[derive(Serialize, Deserialize, Debug, PartialEq, Clone)]
#[serde(rename_all = "kebab-case")]
pub struct Kebab {
    first_name: String,
    #[serde(skip_serializing_if = "Option::is_none")]
    middle_name: Option<String>,
    #[serde(default, skip_serializing_if = "Vec::is_empty")]
    tag_list: Vec<String>,
    boxed_inner: Box<Inner>,
}

#[derive(Serialize, Deserialize, Debug, PartialEq, Clone)]
#[serde(untagged)]
pub enum DateOrText {
    D(toml::value::Datetime),
    T(String),
}
#[derive(Serialize, Deserialize, Debug, PartialEq, Clone)]
pub struct Rest {
    id: u32,
    when: DateOrText,
    #[serde(flatten)]
    rest: toml::Table,
}

#[derive(Serialize, Deserialize, Debug, PartialEq, Clone)]
pub enum Ext {
    Unit,
    New(Inner),
    Tup(i64, String),
    St { a: Option<bool>, b: Vec<i8> },
}
#[derive(Serialize, Deserialize, Debug, PartialEq, Clone)]
pub struct Exts {
    e: Ext,
    v: Vec<Ext>,
    h: HashMap<String, Ext>,
    t: (Ext, Inner),
}

#[derive(Serialize, Deserialize, Debug, PartialEq, Clone)]
#[serde(deny_unknown_fields)]
pub struct Strict {
    a: i32,
    b: std::borrow::Cow<'static, str>,
    #[serde(default = "default_level")]
    level: u8,
    inner: StrictInner,
    list: Vec<StrictInner>,
}
#[derive(Serialize, Deserialize, Debug, PartialEq, Clone)]
#[serde(deny_unknown_fields)]
pub struct StrictInner {
    x: (u8, i64),
    #[serde(with = "as_string")]
    n: u32,
}
fn default_level() -> u8 {
    3
}
mod as_string {
    use serde::{Deserialize, Deserializer, Serializer};
    pub fn serialize<S: Serializer>(v: &u32, s: S) -> Result<S::Ok, S::Error> {
        s.collect_str(v)
    }
    pub fn deserialize<'de, D: Deserializer<'de>>(d: D) -> Result<u32, D::Error> {
        let t = String::deserialize(d)?;
        t.parse().map_err(serde::de::Error::custom)
    }
}

pub const FAMILIES: &[&str] = &["Flat", "Shapes", "Adjs", "Hashes", "Kebab", "Rest", "Exts", "Strict"];

// ---------------------------------------------------------------- value generators (pure functions of the seed)

const KEYS: &[&str] = &["a", "b", "k1", "key two", "é", "x.y", "", "zz", "n", "0"];
const STRS: &[&str] = &["", "s", "hello world", "quote\"d", "new\nline", "true", "1979-05-27", "é日本", "'single'", "back\\slash", "tab\t"];

fn s(r: &mut Rng) -> String {
    r.pick(STRS).to_string()
}
fn key(r: &mut Rng, used: &[String]) -> String {
    for _ in 0..30 {
        let k = r.pick(KEYS).to_string();
        if !used.contains(&k) {
            return k;
        }
    }
    format!("k{}", used.len())
}
fn count(r: &mut Rng, size: u32) -> usize {
    if size == 0 {
        0
    } else {
        r.below(size as usize + 1)
    }
}
fn inner(r: &mut Rng) -> Inner {
    Inner { x: *r.pick(&[0, 1, -1, i32::MAX, i32::MIN, 42]), y: if r.chance(1, 2) { Some(s(r)) } else { None } }
}
fn scalar(r: &mut Rng) -> Scalar {
    match r.below(4) {
        0 => Scalar::B(r.chance(1, 2)),
        1 => Scalar::I(*r.pick(&[0i64, -1, 7, i64::MAX, i64::MIN])),
        2 => Scalar::F(*r.pick(&[0.5f64, -2.25, 1e16, 1e-7, 3.0, f64::MAX, -0.0])),
        _ => Scalar::S(s(r)),
    }
}
fn shape(r: &mut Rng) -> Shape {
    match r.below(3) {
        0 => Shape::Circle { r: *r.pick(&[1.0f64, 0.5, 1e10, -3.25]) },
        1 => Shape::Rect { w: *r.pick(&[0u32, 1, u32::MAX]), h: r.below(100) as u32 },
        _ => Shape::Unit,
    }
}
fn adj(r: &mut Rng) -> Adj {
    match r.below(4) {
        0 => Adj::A(*r.pick(&[0, -5, i32::MAX])),
        1 => Adj::B(s(r), r.chance(1, 2)),
        2 => Adj::C { x: *r.pick(&[0i8, -128, 127]) },
        _ => Adj::D,
    }
}
fn ext(r: &mut Rng, size: u32) -> Ext {
    match r.below(4) {
        0 => Ext::Unit,
        1 => Ext::New(inner(r)),
        2 => Ext::Tup(*r.pick(&[0i64, i64::MIN, 9]), s(r)),
        _ => Ext::St { a: if r.chance(1, 2) { Some(r.chance(1, 2)) } else { None }, b: (0..count(r, size)).map(|_| *r.pick(&[0i8, -1, 127])).collect() },
    }
}

fn gen_flat(r: &mut Rng, size: u32) -> Flat {
    let mut extra = BTreeMap::new();
    for _ in 0..count(r, size) {
        let used: Vec<String> = extra.keys().cloned().chain(["name".to_string(), "port".to_string(), "opt".to_string()]).collect();
        extra.insert(key(r, &used), scalar(r));
    }
    Flat { name: s(r), port: *r.pick(&[0u16, 80, 65535]), opt: if r.chance(1, 2) { Some(inner(r)) } else { None }, extra }
}
fn gen_shapes(r: &mut Rng, size: u32) -> Shapes {
    let mut by_name = BTreeMap::new();
    for _ in 0..count(r, size) {
        let used: Vec<String> = by_name.keys().cloned().collect();
        by_name.insert(key(r, &used), shape(r));
    }
    Shapes { main: shape(r), all: (0..count(r, size)).map(|_| shape(r)).collect(), by_name }
}
fn gen_adjs(r: &mut Rng, size: u32) -> Adjs {
    Adjs { one: adj(r), many: (0..count(r, size)).map(|_| adj(r)).collect() }
}
fn gen_hashes(r: &mut Rng, size: u32) -> Hashes {
    let mut m = HashMap::new();
    for _ in 0..count(r, size + 2) {
        let used: Vec<String> = m.keys().cloned().collect();
        m.insert(key(r, &used), *r.pick(&[0, 1, -7]));
    }
    let mut n = HashMap::new();
    for _ in 0..count(r, size + 1) {
        let used: Vec<String> = n.keys().cloned().collect();
        n.insert(key(r, &used), inner(r));
    }
    let v = (0..count(r, size))
        .map(|_| {
            let mut h = HashMap::new();
            for _ in 0..count(r, size + 1) {
                let used: Vec<String> = h.keys().cloned().collect();
                h.insert(key(r, &used), s(r));
            }
            h
        })
        .collect();
    Hashes { m, n, v, last: r.chance(1, 2) }
}
fn gen_kebab(r: &mut Rng, size: u32) -> Kebab {
    Kebab { first_name: s(r), middle_name: if r.chance(1, 2) { Some(s(r)) } else { None }, tag_list: (0..count(r, size)).map(|_| s(r)).collect(), boxed_inner: Box::new(inner(r)) }
}
fn gen_rest(r: &mut Rng, size: u32) -> Rest {
    let mut rest = toml::Table::new();
    for _ in 0..count(r, size) {
        let used: Vec<String> = rest.keys().cloned().chain(["id".to_string(), "when".to_string()]).collect();
        let k = key(r, &used);
        let v = match r.below(5) {
            0 => toml::Value::Integer(*r.pick(&[0i64, -3, 1 << 40])),
            1 => toml::Value::String(s(r)),
            2 => toml::Value::Datetime("1979-05-27T07:32:00Z".parse().unwrap()),
            3 => toml::Value::Array(vec![toml::Value::Boolean(true), toml::Value::Float(1.5)]),
            _ => {
                let mut t = toml::Table::new();
                t.insert("q".into(), toml::Value::Boolean(false));
                toml::Value::Table(t)
            }
        };
        rest.insert(k, v);
    }
    let when = if r.chance(1, 2) {
        DateOrText::D(r.pick(&["1979-05-27T07:32:00Z", "2000-02-29", "07:32:00.5", "1987-07-05T17:45:00"]).parse().unwrap())
    } else {
        DateOrText::T(r.pick(&["soon", "", "not a date", "x y"]).to_string())
    };
    Rest { id: r.below(1000) as u32, when, rest }
}
fn strict_inner(r: &mut Rng) -> StrictInner {
    StrictInner { x: (*r.pick(&[0u8, 255, 7]), *r.pick(&[0i64, -1, i64::MAX])), n: *r.pick(&[0u32, 42, u32::MAX]) }
}
fn gen_strict(r: &mut Rng, size: u32) -> Strict {
    Strict { a: *r.pick(&[0, -1, i32::MIN]), b: std::borrow::Cow::Owned(s(r)), level: *r.pick(&[0u8, 3, 255]), inner: strict_inner(r), list: (0..count(r, size)).map(|_| strict_inner(r)).collect() }
}
fn gen_exts(r: &mut Rng, size: u32) -> Exts {
    let mut h = HashMap::new();
    for _ in 0..count(r, size + 1) {
        let used: Vec<String> = h.keys().cloned().collect();
        h.insert(key(r, &used), ext(r, size));
    }
    Exts { e: ext(r, size), v: (0..count(r, size)).map(|_| ext(r, size)).collect(), h, t: (ext(r, size), inner(r)) }
}

// ---------------------------------------------------------------- drivers

fn decode(text: &str) -> Option<Tree> {
    catch_unwind(AssertUnwindSafe(|| toml_edit::ImDocument::parse(text.to_string()).ok().and_then(|d| Tree::from_item(d.as_item())))).ok().flatten()
}

/// For families with `HashMap` fields the text itself depends on the process (iteration order is the
/// environment's choice), so only its decoded, order-free content may enter the run digest.
fn note_text(out: &mut RunOut, text: &str, hm: bool) {
    if hm {
        out.note(&format!("{:?}", decode(text).map(|t| t.sorted())));
    } else {
        out.note(text);
    }
}
fn canon<T: Serialize>(v: &T) -> String {
    match toml::Value::try_from(v) {
        Ok(x) => format!("{:?}", Tree::from_value(&x).sorted()),
        Err(e) => format!("unserializable: {e}"),
    }
}

fn drive<T>(prop: &str, gen: fn(&mut Rng, u32) -> T, sc: &Scenario, verbose: bool, out: &mut RunOut)
where
    T: Serialize + DeserializeOwned + PartialEq + Debug + Clone + 'static,
{
    let spec = sc.real.as_ref().expect("workload R without real spec");
    let v: T = gen(&mut Rng::new(spec.vseed), spec.size);
    // a structurally equal value rebuilt from scratch: fresh HashMap instances => (very likely) another iteration order
    let v_again: T = gen(&mut Rng::new(spec.vseed), spec.size);
    if verbose {
        out.log.push(format!("value: {v:?}"));
    }
    out.stats.inc(&format!("real.{}", spec.family));
    let hm = matches!(spec.family.as_str(), "Hashes" | "Exts");
    match prop {
        "C07" => real_c07(&v, sc, verbose, out, hm),
        "C13" => real_c13(&v, sc, verbose, out, hm),
        "C15" => real_c15(&v, sc, verbose, out, hm),
        "C17" => real_c17(&v, &v_again, sc, verbose, out, hm),
        _ => out.harness_error = Some(format!("workload R not defined for {prop}")),
    }
    if hm {
        // event order and texts of HashMap-bearing families depend on the process: their digest and
        // shape are taken from the value alone, so that the determinism audits compare like with like
        out.digest = crate::rng::fnv(canon(&v).as_bytes());
        out.shape = crate::rng::mix(&[crate::rng::fnv(spec.family.as_bytes()), spec.size as u64]);
    }
}

fn faults_ser(sc: &Scenario, n: u32) -> Vec<Fault> {
    match &sc.fault {
        FaultSpec::Ser(k) => vec![Fault::Ser { k: *k % n.max(1), exit: false }, Fault::None],
        FaultSpec::SerExit(k) => vec![Fault::Ser { k: *k % n.max(1), exit: true }, Fault::None],
        FaultSpec::SerEvery => (0..n.min(48)).flat_map(|k| [Fault::Ser { k, exit: false }, Fault::Ser { k, exit: true }]).chain([Fault::None]).collect(),
        _ => vec![Fault::None],
    }
}

fn real_c07<T: Serialize + DeserializeOwned + PartialEq + Debug>(v: &T, sc: &Scenario, verbose: bool, out: &mut RunOut, hm: bool) {
    // count the writer's nested serialize calls
    let n = {
        let cx = Ctx::new(Fault::None, false);
        let _ = catch_unwind(AssertUnwindSafe(|| toml::Value::try_from(&PVal { v, cx: &cx }).is_ok()));
        cx.ser_count.get()
    };
    for name in crate::c07::SERIALIZERS {
        if !crate::c07::ser_on(sc, name) {
            continue;
        }
        for fault in faults_ser(sc, n) {
            let cx = Ctx::new(fault, verbose);
            let res = catch_unwind(AssertUnwindSafe(|| run_serializer(name, &PVal { v, cx: &cx })));
            out.absorb(&cx);
            let fired = cx.has_fired();
            if fired {
                out.stats.inc("fault.F-SER.fired");
            }
            match res {
                Err(p) => out.violate("C07/1", format!("C07/panic/ser={name}/fault={fired}"), format!("{name} panicked on a real derived type: {}\n value: {v:?}", panic_msg(&p))),
                Ok(Err(msg)) => {
                    out.note(&msg);
                    if !fired {
                        out.violate("C07/3", format!("C07/spurious-error/ser={name}"), format!("{name} returned Err({msg:?}) for a value of a supported derived type\n value: {v:?}"));
                    }
                }
                Ok(Ok(so)) => {
                    if fired {
                        out.violate("C07/4", format!("C07/fault-swallowed/ser={name}"), format!("{name} returned Ok although the writer's nested serialize call failed ({fault:?})\n value: {v:?}"));
                        continue;
                    }
                    out.stats.inc("outcome.ok");
                    let cx2 = Ctx::new(Fault::None, false);
                    let back: Result<Result<T, String>, String> = match &so {
                        SerOut::Text(text) => {
                            note_text(out, text, hm);
                            if verbose {
                                out.log.push(format!("text from {name}:\n{text}"));
                            }
                            if decode(text).is_none() {
                                out.violate("C07/2", format!("C07/invalid-toml/ser={name}"), format!("{name} returned Ok but its text is not valid TOML\n value: {v:?}\n--- text ---\n{text}"));
                                continue;
                            }
                            catch_unwind(AssertUnwindSafe(|| run_route_real::<T>(R1, text, &cx2).map_err(|e| e.rendered))).map_err(|p| panic_msg(&p))
                        }
                        SerOut::Value(val) => {
                            let val = val.clone();
                            catch_unwind(AssertUnwindSafe(|| with_cx(&cx2, || val.try_into::<crate::dynpeer::DynReal<T>>()).map(|d| d.0).map_err(|e| e.to_string()))).map_err(|p| panic_msg(&p))
                        }
                    };
                    out.absorb(&cx2);
                    match back {
                        Err(p) => out.violate("C07/1", format!("C07/panic/readback/ser={name}"), format!("deserializing {name} output panicked: {p}")),
                        Ok(Err(e)) => out.violate("C07/2", format!("C07/readback-error/ser={name}"), format!("{name} returned Ok but deserializing the same type from its output fails: {e}\n value: {v:?}")),
                        Ok(Ok(v2)) => {
                            out.stats.inc("oracle.readback_equal");
                            if &v2 != v {
                                out.violate("C07/2", format!("C07/readback-differs/ser={name}"), format!("{name}: value read back differs\n wrote {v:?}\n read  {v2:?}"));
                            }
                        }
                    }
                }
            }
        }
    }
}

fn real_c13<T: Serialize + DeserializeOwned + PartialEq + Debug>(v: &T, sc: &Scenario, verbose: bool, out: &mut RunOut, hm: bool) {
    let sers = ["toml::to_string", "toml::to_string_pretty", "toml_edit::ser::to_string", "toml_edit::ser::to_string_pretty", "toml_edit::ser::to_document"];
    let sname = sers[(sc.whseed as usize) % sers.len()];
    let text = match catch_unwind(AssertUnwindSafe(|| run_serializer(sname, v))) {
        Ok(Ok(SerOut::Text(t))) => t,
        _ => return, // C07's business
    };
    note_text(out, &text, hm);
    if verbose {
        out.log.push(format!("document from {sname}:\n{text}"));
    }
    let fault = match sc.fault {
        FaultSpec::Vis(k, exit) => Fault::Vis { k, exit },
        _ => Fault::None,
    };
    let runs: Vec<Fault> = if fault == Fault::None { vec![Fault::None] } else { vec![fault, Fault::None] };
    for f in runs {
        for route in DOC_ROUTES_X {
            if !route_on(sc, route) {
                continue;
            }
            out.stats.inc(&format!("route.{}", route.split(':').next().unwrap_or(route)));
            let cx = Ctx::new(f, verbose);
            let r = catch_unwind(AssertUnwindSafe(|| run_route_real::<T>(route, &text, &cx)));
            out.absorb(&cx);
            let fired = cx.has_fired();
            match r {
                Err(p) => out.violate("C13/4", format!("C13/panic/route={route}"), format!("{route} panicked: {}\n--- text ---\n{text}", panic_msg(&p))),
                Ok(Ok(v2)) => {
                    if fired {
                        out.stats.inc("fault.F-VIS.fired");
                        out.violate("C13/4", format!("C13/fault-swallowed/route={route}"), format!("{route} returned Ok although the reader's visitor callback failed\n--- text ---\n{text}"));
                    } else if f == Fault::None {
                        out.stats.inc("oracle.route_ok");
                        if &v2 != v {
                            out.violate("C13/2", format!("C13/route-wrong-value/route={route}"), format!("{route} succeeded with a value different from the one serialized\n wrote {v:?}\n read  {v2:?}\n--- text ({sname}) ---\n{text}"));
                        }
                    }
                }
                Ok(Err(e)) => {
                    if !hm {
                        out.note(&e.rendered);
                    }
                    if fired {
                        out.stats.inc("fault.F-VIS.fired");
                    } else if f == Fault::None {
                        out.violate("C13/2", format!("C13/route-fails-on-own-output/route={route}"), format!("{route} fails on text obtained by serializing a value of the target type: {}\n value: {v:?}\n--- text ({sname}) ---\n{text}", e.rendered));
                    }
                }
            }
        }
    }
    // try_from vs the text route
    let tt = catch_unwind(AssertUnwindSafe(|| toml::from_str::<toml::Value>(&text).ok())).ok().flatten().map(|x| Tree::from_value(&x));
    for name in ["toml::Value::try_from", "toml::Table::try_from"] {
        if !sc.only.is_empty() && !sc.wants(name) {
            continue;
        }
        match catch_unwind(AssertUnwindSafe(|| run_serializer(name, v))) {
            Err(p) => out.violate("C13/3", format!("C13/panic/ser={name}"), format!("{name} panicked: {}", panic_msg(&p))),
            Ok(Ok(SerOut::Value(x))) => {
                if let Some(tt) = &tt {
                    out.stats.inc("oracle.try_from_vs_text");
                    let t = Tree::from_value(&x);
                    if !t.eq_unordered(tt) {
                        out.violate("C13/3", format!("C13/try_from-differs-from-text-route/ser={name}"), format!("{name} gives a tree different from parsing the serialized text\n try_from: {:?}\n text:     {:?}", t.sorted(), tt.sorted()));
                    }
                }
            }
            Ok(Err(msg)) => {
                if tt.is_some() && name == "toml::Value::try_from" {
                    out.violate("C13/3", format!("C13/try_from-fails/ser={name}"), format!("{name} fails ({msg}) although serializing to text and parsing it succeeds\n value: {v:?}"));
                }
            }
            _ => {}
        }
    }
}

fn real_c17<T: Serialize + DeserializeOwned + PartialEq + Debug>(v: &T, v_again: &T, sc: &Scenario, verbose: bool, out: &mut RunOut, hm: bool) {
    let sers = crate::c17::TEXT_SERS;
    let mut texts: Vec<Option<String>> = Vec::new();
    for name in sers {
        if !sc.wants(name) {
            texts.push(None);
            continue;
        }
        let ser = |x: &T| catch_unwind(AssertUnwindSafe(|| run_serializer(name, x))).map(|r| r.map(|so| if let SerOut::Text(t) = so { t } else { String::new() })).map_err(|p| panic_msg(&p));
        let r1 = ser(v);
        let r2 = ser(v);
        out.execs += 2;
        if r1 != r2 {
            out.violate("C17/1", format!("C17/nondeterministic/ser={name}"), format!("{name} gave two different results for the same value object\n first:  {r1:?}\n second: {r2:?}"));
        }
        let text = match r1 {
            Err(p) => {
                out.violate("C17/1", format!("C17/panic/ser={name}"), format!("{name} panicked: {p}"));
                texts.push(None);
                continue;
            }
            Ok(Err(_)) => {
                texts.push(None);
                continue;
            }
            Ok(Ok(t)) => t,
        };
        note_text(out, &text, hm);
        if verbose {
            out.log.push(format!("--- {name}:\n{text}"));
        }
        // the same value with its HashMaps rebuilt (another iteration order): still valid, decodes to v
        if let Ok(Ok(t2)) = ser(v_again) {
            out.execs += 1;
            out.stats.inc("oracle.reorder");
            if t2 != text {
                out.stats.inc("probe.hashmap_order_changed_text");
            }
            let cx = Ctx::new(Fault::None, false);
            match catch_unwind(AssertUnwindSafe(|| run_route_real::<T>(R1, &t2, &cx))) {
                Ok(Ok(b)) => {
                    if &b != v {
                        out.violate("C17/4", format!("C17/reorder-changes-value/ser={name}"), format!("{name}: output for another map iteration order decodes to a different value\n wrote {v:?}\n read  {b:?}\n--- text ---\n{t2}"));
                    }
                }
                Ok(Err(e)) => out.violate("C17/4", format!("C17/reorder-invalid-text/ser={name}"), format!("{name}: output for another map iteration order cannot be read back: {}\n--- text ---\n{t2}", e.rendered)),
                Err(p) => out.violate("C17/1", format!("C17/panic/readback/ser={name}"), format!("panicked: {}", panic_msg(&p))),
            }
            out.absorb(&cx);
        }
        if hm {
            // to_string(from_str(to_string(v))) == to_string(v) cannot be asked of a type whose own
            // Serialize impl emits its HashMap entries in a per-instance order
            texts.push(Some(text));
            continue;
        }
        // fixed point
        let cx = Ctx::new(Fault::None, false);
        let back = catch_unwind(AssertUnwindSafe(|| run_route_real::<T>(R1, &text, &cx)));
        out.absorb(&cx);
        match back {
            Ok(Ok(b)) => {
                out.stats.inc("oracle.fixed_point");
                match ser(&b) {
                    Ok(Ok(t2)) => {
                        if t2 != text {
                            out.violate("C17/2", format!("C17/not-a-fixed-point/ser={name}"), format!("{name}: serialize -> deserialize -> serialize changes the text\n--- first ---\n{text}\n--- second ---\n{t2}"));
                        }
                    }
                    other => out.violate("C17/2", format!("C17/not-a-fixed-point/ser={name}"), format!("{name}: re-serializing the value read back fails: {other:?}")),
                }
            }
            Ok(Err(e)) => out.violate("C17/2", format!("C17/not-a-fixed-point/readback-fails/ser={name}"), format!("{name} succeeded but its own output cannot be deserialized into the same type ({})\n--- text ---\n{text}", e.rendered)),
            Err(p) => out.violate("C17/1", format!("C17/panic/readback/ser={name}"), format!("panicked: {}", panic_msg(&p))),
        }
        texts.push(Some(text));
    }
    for (a, b) in [(0usize, 1usize), (2, 3), (2, 4)] {
        if let (Some(ta), Some(tb)) = (&texts[a], &texts[b]) {
            out.stats.inc("oracle.plain_vs_pretty");
            let same = match (decode(ta), decode(tb)) {
                (Some(x), Some(y)) => x.eq_unordered(&y),
                _ => false,
            };
            if !same {
                out.violate("C17/3", format!("C17/plain-pretty-differ/{}|{}", sers[a], sers[b]), format!("{} and {} outputs do not decode to equal values\n--- a ---\n{ta}\n--- b ---\n{tb}", sers[a], sers[b]));
            }
        }
    }
}

fn real_c15<T: Serialize + DeserializeOwned + PartialEq + Debug>(v: &T, sc: &Scenario, verbose: bool, out: &mut RunOut, hm: bool) {
    let text = match catch_unwind(AssertUnwindSafe(|| if sc.whseed & 1 == 0 { toml::to_string(v).ok() } else { toml::to_string_pretty(v).ok() })) {
        Ok(Some(t)) => t,
        _ => return,
    };
    note_text(out, &text, hm);
    let im = match toml_edit::ImDocument::parse(text.clone()) {
        Ok(d) => d,
        Err(_) => return,
    };
    let single: Option<Fault> = match sc.fault {
        FaultSpec::Vis(k, exit) => Some(Fault::Vis { k, exit }),
        FaultSpec::Seed(k, exit) => Some(Fault::Seed { k, exit }),
        _ => None,
    };
    crate::c15::enumerate_faults(&text, im.as_item(), single, sc, verbose, out, &|route, fault, keep| {
        let cx = Ctx::new(fault, keep);
        let r = catch_unwind(AssertUnwindSafe(|| run_route_real::<T>(route, &text, &cx).map(|v| canon(&v))));
        (r, cx)
    });
}

pub fn execute(prop: &str, sc: &Scenario, verbose: bool, out: &mut RunOut) {
    let fam = sc.real.as_ref().map(|r| r.family.clone()).unwrap_or_default();
    match fam.as_str() {
        "Flat" => drive::<Flat>(prop, gen_flat, sc, verbose, out),
        "Shapes" => drive::<Shapes>(prop, gen_shapes, sc, verbose, out),
        "Adjs" => drive::<Adjs>(prop, gen_adjs, sc, verbose, out),
        "Hashes" => drive::<Hashes>(prop, gen_hashes, sc, verbose, out),
        "Kebab" => drive::<Kebab>(prop, gen_kebab, sc, verbose, out),
        "Rest" => drive::<Rest>(prop, gen_rest, sc, verbose, out),
        "Exts" => drive::<Exts>(prop, gen_exts, sc, verbose, out),
        "Strict" => drive::<Strict>(prop, gen_strict, sc, verbose, out),
        other => out.harness_error = Some(format!("unknown real family {other:?}")),
    }
}

pub fn generate(prop: &str, rng: &mut Rng) -> Scenario {
    let mut sc = Scenario::new(prop, "R", crate::types::Ty::Unit);
    sc.real = Some(RealSpec { family: rng.pick(FAMILIES).to_string(), vseed: rng.next(), size: rng.below(4) as u32 });
    sc.whseed = rng.next() % 5;
    match prop {
        "C07" => match rng.below(6) {
            0 => sc.fault = FaultSpec::Ser(rng.below(64) as u32),
            1 => sc.fault = FaultSpec::SerExit(rng.below(64) as u32),
            2 => sc.fault = FaultSpec::SerEvery,
            _ => {}
        },
        "C13" => {
            if rng.chance(1, 3) {
                sc.fault = FaultSpec::Vis(rng.below(60) as u32, rng.chance(1, 2));
            }
        }
        "C15" => sc.fault = FaultSpec::VisEvery,
        _ => {}
    }
    sc
}
