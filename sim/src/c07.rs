//! C07 — serde serialization never loses data: it round-trips or returns an error.
//! Simulated parties: the writer peer W(T,v) behind the serializer seam (with F-SER injection and
//! H1–H4 choices) and the reader peer R(T) behind the deserializer seam.

use crate::common::*;
use crate::gen::*;
use crate::model::*;
use crate::reader::*;
use crate::rng::Rng;
use crate::seam::*;
use crate::types::*;
use crate::writer::*;
use serde::de::DeserializeSeed;
use serde::Serialize;
use std::panic::{catch_unwind, AssertUnwindSafe};

pub const SERIALIZERS: &[&str] = &[
    "toml::to_string",
    "toml::to_string_pretty",
    "toml_edit::ser::to_string",
    "toml_edit::ser::to_string_pretty",
    "toml_edit::ser::to_document",
    "toml::Value::try_from",
    "toml::Table::try_from",
    // alias entry points (run in a seeded subset of the scenarios, see Scenario::alias)
    "toml_edit::ser::to_vec",
    "toml::ser::Serializer::new",
    "toml::ser::Serializer::pretty",
];

/// alias serializers occupy the scenario's alias bits above the alias routes
pub fn ser_alias_bit(name: &str) -> Option<u32> {
    let base = crate::routes::ALIAS_ROUTES.len() as u32;
    match name {
        "toml_edit::ser::to_vec" => Some(1 << base),
        "toml::ser::Serializer::new" => Some(1 << (base + 1)),
        "toml::ser::Serializer::pretty" => Some(1 << (base + 2)),
        _ => None,
    }
}
pub const ALIAS_BITS: u32 = crate::routes::ALIAS_ROUTES.len() as u32 + 3;

pub fn ser_on(sc: &Scenario, name: &str) -> bool {
    match ser_alias_bit(name) {
        Some(bit) => {
            if sc.only.is_empty() {
                sc.alias & bit != 0
            } else {
                sc.only.iter().any(|o| o == name)
            }
        }
        None => sc.wants(name),
    }
}

pub enum SerOut {
    Text(String),
    Value(toml::Value),
}

pub fn run_serializer<T: Serialize>(name: &str, v: &T) -> Result<SerOut, String> {
    match name {
        "toml::to_string" => toml::to_string(v).map(SerOut::Text).map_err(|e| e.to_string()),
        "toml::to_string_pretty" => toml::to_string_pretty(v).map(SerOut::Text).map_err(|e| e.to_string()),
        "toml_edit::ser::to_string" => toml_edit::ser::to_string(v).map(SerOut::Text).map_err(|e| e.to_string()),
        "toml_edit::ser::to_string_pretty" => toml_edit::ser::to_string_pretty(v).map(SerOut::Text).map_err(|e| e.to_string()),
        "toml_edit::ser::to_document" => toml_edit::ser::to_document(v).map(|d| SerOut::Text(d.to_string())).map_err(|e| e.to_string()),
        "toml::Value::try_from" => toml::Value::try_from(v).map(SerOut::Value).map_err(|e| e.to_string()),
        "toml::Table::try_from" => toml::Table::try_from(v).map(|t| SerOut::Value(toml::Value::Table(t))).map_err(|e| e.to_string()),
        "toml_edit::ser::to_vec" => match toml_edit::ser::to_vec(v) {
            Ok(b) => Ok(SerOut::Text(String::from_utf8_lossy(&b).into_owned())),
            Err(e) => Err(e.to_string()),
        },
        "toml::ser::Serializer::new" => {
            let mut buf = String::new();
            v.serialize(toml::ser::Serializer::new(&mut buf)).map(|()| SerOut::Text(buf)).map_err(|e| e.to_string())
        }
        "toml::ser::Serializer::pretty" => {
            let mut buf = String::new();
            v.serialize(toml::ser::Serializer::pretty(&mut buf)).map(|()| SerOut::Text(buf)).map_err(|e| e.to_string())
        }
        other => Err(format!("HARNESS: unknown serializer {other}")),
    }
}

pub fn generate(rng: &mut Rng, _tier: &str) -> Scenario {
    if rng.chance(1, 8) {
        return crate::realfam::generate("C07", rng);
    }
    let cfg = GenCfg::swarm(rng);
    let mut g = Gen::new(rng, cfg);
    let ty = g.ty(0, Pos::Root);
    let val = g.val(&ty);
    let mut sc = Scenario::new("C07", "A", ty);
    sc.val = Some(val);
    // H1–H4: a random subset per run
    if rng.chance(1, 2) {
        sc.whmask = (rng.next() & 0x7f) as u32;
        sc.whseed = rng.next();
    }
    // F-SER in a fraction of the runs
    match rng.below(10) {
        0 | 1 => {
            let n = count_ser_calls(&sc);
            let k = rng.below(n.max(1) as usize) as u32;
            sc.fault = if rng.chance(1, 2) { FaultSpec::Ser(k) } else { FaultSpec::SerExit(k) };
        }
        2 if sc.ty.count_nodes() <= 12 => sc.fault = FaultSpec::SerEvery,
        _ => {}
    }
    sc
}

/// number of nested `Serialize::serialize` calls the writer makes (dry run through the seam)
pub fn count_ser_calls(sc: &Scenario) -> u32 {
    let cx = Ctx::new(Fault::None, false);
    let wcfg = WCfg::new(sc.whmask, sc.whseed);
    let val = sc.val.as_ref().unwrap();
    let w = W { ty: &sc.ty, v: val, cfg: &wcfg };
    let _ = catch_unwind(AssertUnwindSafe(|| toml::Value::try_from(&PVal { v: &w, cx: &cx }).is_ok()));
    cx.ser_count.get()
}

pub fn execute(sc: &Scenario, verbose: bool) -> RunOut {
    let mut out = RunOut::default();
    if sc.workload == "R" {
        crate::realfam::execute("C07", sc, verbose, &mut out);
        return out;
    }
    let ty = &sc.ty;
    let val = sc.val.as_ref().expect("C07 scenario without value");
    let must = must_succeed(ty, val);
    let m = model(ty, val);
    out.stats.inc(if must { "class.must_succeed" } else { "class.outside" });
    probes(ty, val, &mut out.stats);

    let faults: Vec<Fault> = match &sc.fault {
        FaultSpec::None => vec![Fault::None],
        FaultSpec::Ser(k) => vec![Fault::Ser { k: *k, exit: false }, Fault::None],
        FaultSpec::SerExit(k) => vec![Fault::Ser { k: *k, exit: true }, Fault::None],
        FaultSpec::SerEvery => {
            let n = count_ser_calls(sc).min(64);
            let mut v: Vec<Fault> = (0..n).flat_map(|k| [Fault::Ser { k, exit: false }, Fault::Ser { k, exit: true }]).collect();
            v.push(Fault::None); // F-RES: the fault-free twin runs after the faulted ones
            v
        }
        other => {
            out.harness_error = Some(format!("C07 does not take fault {other:?}"));
            return out;
        }
    };

    for name in SERIALIZERS {
        if !ser_on(sc, name) {
            continue;
        }
        for fault in &faults {
            let cx = Ctx::new(*fault, verbose);
            let wcfg = WCfg::new(sc.whmask, sc.whseed);
            let w = W { ty, v: val, cfg: &wcfg };
            let res = catch_unwind(AssertUnwindSafe(|| run_serializer(name, &PVal { v: &w, cx: &cx })));
            out.absorb(&cx);
            for (i, u) in wcfg.used.iter().enumerate() {
                if u.get() > 0 {
                    out.stats.add(&format!("hflag.H{}.taken", i + 1), u.get() as u64);
                }
            }
            if verbose {
                out.log.push(format!("--- {name} fault={fault:?}"));
                for e in cx.log.borrow().iter() {
                    out.log.push(format!("  {} {:>2} {} {:?}", e.c, e.d, e.k, e.p));
                }
            }
            let fired = cx.has_fired();
            if fired {
                out.stats.inc("fault.F-SER.fired");
            }

            match res {
                Err(p) => {
                    let msg = panic_msg(&p);
                    if msg.contains("HARNESS") {
                        out.harness_error = Some(msg);
                        return out;
                    }
                    out.violate("C07/1", format!("C07/panic/ser={name}/fault={}", fired), format!("{name} panicked: {msg}"));
                }
                Ok(Err(msg)) => {
                    out.note(&msg);
                    if msg.contains("HARNESS") {
                        out.harness_error = Some(msg);
                        return out;
                    }
                    if fired {
                        out.stats.inc(if msg.contains("injected@") { "probe.fser.message_preserved" } else { "probe.fser.message_replaced" });
                    } else if must {
                        out.violate(
                            "C07/3",
                            format!("C07/spurious-error/ser={name}"),
                            format!("{name} returned Err({msg:?}) for a value inside the must-succeed class"),
                        );
                    } else {
                        out.stats.inc("outcome.err_outside_class");
                    }
                }
                Ok(Ok(so)) => {
                    if fired {
                        out.violate(
                            "C07/4",
                            format!("C07/fault-swallowed/ser={name}"),
                            format!("{name} returned Ok although the writer's nested serialize call failed (injected@{:?})", fault),
                        );
                        continue;
                    }
                    out.stats.inc("outcome.ok");
                    check_roundtrip(name, so, ty, val, &m, &mut out, verbose);
                    if out.harness_error.is_some() {
                        return out;
                    }
                }
            }
        }
    }
    out
}

fn check_roundtrip(name: &str, so: SerOut, ty: &Ty, val: &Val, m: &Option<Tree>, out: &mut RunOut, verbose: bool) {

    let rcfg = RCfg::plain();
    let cx = Ctx::new(Fault::None, verbose);
    let (tree, back): (Option<Tree>, Result<Result<Val, String>, String>) = match &so {
        SerOut::Text(text) => {
            out.note(text);
            if verbose {
                out.log.push(format!("text from {name}:\n{text}"));
            }
            let parsed = catch_unwind(AssertUnwindSafe(|| toml_edit::ImDocument::parse(text.clone())));
            let tree = match parsed {
                Err(p) => {
                    out.violate("C07/1", format!("C07/panic/parse-of-output/ser={name}"), format!("parser panicked on {name} output: {}", panic_msg(&p)));
                    return;
                }
                Ok(Err(e)) => {
                    out.violate(
                        "C07/2",
                        format!("C07/invalid-toml/ser={name}"),
                        format!("{name} returned Ok but its text is not valid TOML: {}\n--- text ---\n{text}", e.message()),
                    );
                    return;
                }
                Ok(Ok(doc)) => Tree::from_item(doc.as_item()),
            };
            let back = catch_unwind(AssertUnwindSafe(|| {
                PSeed { s: R { ty, cfg: &rcfg }, cx: &cx }.deserialize(toml::de::Deserializer::new(text)).map_err(|e| e.to_string())
            }))
            .map_err(|p| panic_msg(&p));
            (tree, back)
        }
        SerOut::Value(v) => {
            let tree = Some(Tree::from_value(v));
            out.note(&format!("{tree:?}"));
            let v2 = v.clone();
            let back = catch_unwind(AssertUnwindSafe(|| PSeed { s: R { ty, cfg: &rcfg }, cx: &cx }.deserialize(v2).map_err(|e| e.to_string())))
                .map_err(|p| panic_msg(&p));
            (tree, back)
        }
    };
    out.absorb(&cx);
    if verbose {
        out.log.push(format!("--- read back of {name}"));
        for e in cx.log.borrow().iter() {
            out.log.push(format!("  {} {:>2} {} {:?}", e.c, e.d, e.k, e.p));
        }
    }
    // the documented mapping speaks about table-rooted documents; for other roots only the
    // property's own words (valid text that reads back equal) are asserted
    // (an f32 may legitimately be printed through any f64 that narrows back to it: not compared)
    if let (Some(m), Some(t), true, false) = (m, &tree, ok_root_val(ty, val), ty_features(ty).contains(&"f32")) {
        out.stats.inc("oracle.tree_vs_model");
        if !t.eq_unordered(m) {
            out.violate(
                "C07/2",
                format!("C07/tree-altered/ser={name}"),
                format!("{name} output decodes to a tree different from the documented mapping\n expected {:?}\n got      {:?}", m.sorted(), t.sorted()),
            );
            return;
        }
    }
    match back {
        Err(p) => out.violate("C07/1", format!("C07/panic/readback/ser={name}"), format!("deserializing {name} output panicked: {p}")),
        Ok(Err(e)) => {
            out.note(&e);
            out.violate(
                "C07/2",
                format!("C07/readback-error/ser={name}"),
                format!("{name} returned Ok but deserializing the same type from its output fails: {e}"),
            )
        }
        Ok(Ok(v2)) => {
            out.stats.inc("oracle.readback_equal");
            if v2.canon(true) != val.canon(true) {
                out.violate(
                    "C07/2",
                    format!("C07/readback-differs/ser={name}"),
                    format!("{name}: value read back differs\n wrote {:?}\n read  {:?}", val.canon(true), v2.canon(true)),
                );
            }
        }
    }
}

fn probes(ty: &Ty, val: &Val, st: &mut Stats) {
    fn go(ty: &Ty, v: &Val, st: &mut Stats, in_seq: bool) {
        match (ty, v) {
            (Ty::U64, Val::Int(i)) if *i > i64::MAX as i128 => st.inc("probe.u64_above_i64"),
            (Ty::F32, Val::F32(b)) if f32::from_bits(*b).is_nan() && (*b >> 31) == 1 => st.inc("probe.neg_nan"),
            (Ty::F64, Val::F64(b)) if f64::from_bits(*b).is_nan() && (*b >> 63) == 1 => st.inc("probe.neg_nan"),
            (Ty::Datetime | Ty::Date | Ty::Time, Val::Dt(d)) => {
                st.inc("probe.datetime_leaf");
                if matches!(d.time, Some((24, ..))) {
                    st.inc("probe.hour24_from_standalone_parser");
                }
            }
            (Ty::Option(_), Val::None) if in_seq => st.inc("probe.none_in_seq"),
            (Ty::Option(t), Val::Some(x)) => go(t, x, st, false),
            (Ty::Seq(t), Val::Seq(xs)) => {
                if xs.is_empty() {
                    st.inc("probe.empty_seq");
                }
                // the shape named in C07's rationale: an array holding a string and a struct-variant table
                if let Ty::Enum(_, vars) = &**t {
                    let has_unit = xs.iter().any(|x| matches!(x, Val::Variant(i, _) if matches!(vars[*i].1, VarTy::Unit)));
                    let has_struct = xs.iter().any(|x| matches!(x, Val::Variant(i, _) if matches!(vars[*i].1, VarTy::Struct(_))));
                    if has_unit && has_struct {
                        st.inc("probe.mixed_array_unit_and_struct_variant");
                    }
                    if has_struct {
                        st.inc("probe.struct_variant_in_seq");
                    }
                }
                xs.iter().for_each(|x| go(t, x, st, true));
            }
            (Ty::Tuple(ts), Val::Seq(xs)) | (Ty::TupleStruct(_, ts), Val::Seq(xs)) => ts.iter().zip(xs).for_each(|(t, x)| go(t, x, st, true)),
            (Ty::Map(kt, vt), Val::Map(kvs)) => {
                if kvs.is_empty() {
                    st.inc("probe.empty_map");
                }
                if !matches!(kt, KeyTy::Str | KeyTy::NewtypeStr(_) | KeyTy::UnitVariant(..) | KeyTy::SpannedStr | KeyTy::NewtypeSpanned(_)) {
                    st.inc("probe.non_string_key");
                }
                if matches!(kt, KeyTy::UnitVariant(..)) {
                    st.inc("probe.unit_variant_key");
                }
                kvs.iter().for_each(|(_, x)| go(vt, x, st, false));
            }
            (Ty::Struct(_, fs), Val::Struct(xs)) => {
                if fs.is_empty() {
                    st.inc("probe.empty_struct");
                }
                fs.iter().zip(xs).for_each(|((_, t), x)| go(t, x, st, false))
            }
            (Ty::Newtype(_, t), x) => go(t, x, st, in_seq),
            (Ty::Enum(_, vars), Val::Variant(i, p)) => match (&vars[*i].1, &**p) {
                (VarTy::Unit, _) => st.inc("probe.unit_variant"),
                (VarTy::Newtype(t), x) => {
                    st.inc("probe.newtype_variant");
                    go(t, x, st, false)
                }
                (VarTy::Tuple(ts), Val::Seq(xs)) => {
                    st.inc("probe.tuple_variant");
                    ts.iter().zip(xs).for_each(|(t, x)| go(t, x, st, true))
                }
                (VarTy::Struct(fs), Val::Struct(xs)) => {
                    st.inc("probe.struct_variant");
                    fs.iter().zip(xs).for_each(|((_, t), x)| go(t, x, st, false))
                }
                _ => {}
            },
            (Ty::Unit | Ty::UnitStruct(_), _) => st.inc("probe.unit"),
            (Ty::I128 | Ty::U128, _) => st.inc("probe.int128"),
            (Ty::Any, _) => st.inc("probe.any_value"),
            _ => {}
        }
    }
    go(ty, val, st, false);
}
