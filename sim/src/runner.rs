//! Process architecture (DESIGN 2.8): the parent forks worker processes (re-executing this
//! binary); worker w owns runs i ≡ w (mod workers); each run is a pure function of its run seed.
//! Write-ahead of the run index lets the parent attribute an abort or a hang to one scenario.

use crate::common::*;
use crate::rng::{mix, Rng};
use serde::{Deserialize, Serialize};
use std::collections::{BTreeMap, HashSet};
use std::io::Write;
use std::path::{Path, PathBuf};
use std::sync::atomic::{AtomicU64, Ordering};
use std::time::{Duration, Instant};

pub const DEFAULT_SEED: u64 = 20260927;

pub fn prop_names(prop: &str) -> &'static [&'static str] {
    match prop {
        "C07" => crate::c07::SERIALIZERS,
        "C13" => crate::c13::NAMES,
        "C14" => crate::c14::NAMES,
        "C15" => crate::c15::NAMES,
        "C17" => crate::c17::NAMES,
        _ => &[],
    }
}

pub fn generate(prop: &str, rng: &mut Rng, tier: &str) -> Scenario {
    let mut sc = generate_inner(prop, rng, tier);
    // alias routes: each selected with probability 1/4 (drawn last: the scenario itself is unaffected)
    let r = rng.next();
    sc.alias = ((r & (r >> 11)) as u32) & ((1u32 << crate::c07::ALIAS_BITS) - 1);
    sc
}

fn generate_inner(prop: &str, rng: &mut Rng, tier: &str) -> Scenario {
    match prop {
        "C07" => crate::c07::generate(rng, tier),
        "C13" => crate::c13::generate(rng, tier),
        "C14" => crate::c14::generate(rng, tier),
        "C15" => crate::c15::generate(rng, tier),
        "C17" => crate::c17::generate(rng, tier),
        _ => panic!("HARNESS: unknown property {prop}"),
    }
}

pub fn execute(sc: &Scenario, verbose: bool) -> RunOut {
    match sc.property.as_str() {
        "C07" => crate::c07::execute(sc, verbose),
        "C13" => crate::c13::execute(sc, verbose),
        "C14" => crate::c14::execute(sc, verbose),
        "C15" => crate::c15::execute(sc, verbose),
        "C17" => crate::c17::execute(sc, verbose),
        p => {
            let mut o = RunOut::default();
            o.harness_error = Some(format!("unknown property {p}"));
            o
        }
    }
}

pub fn run_seed(verif_seed: u64, prop: &str, tier: &str, i: u64) -> u64 {
    mix(&[verif_seed, crate::rng::fnv(prop.as_bytes()), crate::rng::fnv(tier.as_bytes()), i])
}

pub fn build_name() -> &'static str {
    match (cfg!(feature = "perf"), cfg!(feature = "preserve_order")) {
        (false, false) => "default",
        (true, false) => "perf",
        (false, true) => "preserve_order",
        (true, true) => "perf+preserve_order",
    }
}

#[derive(Clone, Debug, Serialize, Deserialize)]
pub struct ReplayFile {
    pub format: u32,
    pub property: String,
    pub tier: String,
    pub verif_seed: u64,
    pub run: u64,
    pub run_seed: String,
    pub build: String,
    pub minimised: bool,
    pub shrink_execs: usize,
    pub scenario: Scenario,
    pub verdict: Violation,
    pub features: String,
    pub digest: String,
    pub human: Vec<String>,
}

#[derive(Clone, Debug, Serialize, Deserialize)]
pub struct FoundViolation {
    pub run: u64,
    pub replay: String,
    pub verdict: Violation,
    pub features: String,
}

#[derive(Clone, Debug, Default, Serialize, Deserialize)]
pub struct WorkerOut {
    pub runs: u64,
    pub nontrivial: u64,
    pub events: u64,
    pub execs: u64,
    pub stats: Stats,
    pub shapes: Vec<u64>,
    /// per-run digests in index order (determinism audit)
    pub digests: Vec<(u64, u64)>,
    pub violations: Vec<FoundViolation>,
    pub violation_count: u64,
    pub samples: Vec<serde_json::Value>,
    pub harness_errors: Vec<String>,
    pub stopped_early: bool,
}

pub fn features_of(sc: &Scenario) -> String {
    let mut f = ty_features(&sc.ty).join("+");
    if let Some(d) = &sc.doc {
        f.push_str(&format!("|doc:{}", d.source.split(':').next().unwrap_or("")));
    }
    f
}

pub fn human_rendering(sc: &Scenario) -> Vec<String> {
    let mut h = Vec::new();
    h.push(format!("type: {}", crate::render::rust_decl(&sc.ty)));
    if let Some(v) = &sc.val {
        h.push(format!("value: {v:?}"));
    }
    if let Some(r) = &sc.real {
        h.push(format!("real derived type family {} (sim/src/realfam.rs), value = gen(seed {:#x}, size {})", r.family, r.vseed, r.size));
    }
    if let Some(d) = &sc.doc {
        h.push(format!("document ({}):", d.source));
        h.extend(d.text.lines().map(|l| format!("  | {l}")));
    }
    h.push(format!("fault: {:?}; writer flags {:#x}; reader flags {:#x}; only: {:?}", sc.fault, sc.whmask, sc.rhmask, sc.only));
    h
}

static CUR_RUN: AtomicU64 = AtomicU64::new(u64::MAX);
static CUR_SINCE_MS: AtomicU64 = AtomicU64::new(0);

static T0: std::sync::OnceLock<Instant> = std::sync::OnceLock::new();
/// called after every library execution: the watchdog measures time without progress, not time per scenario
pub fn heartbeat() {
    if let Some(t0) = T0.get() {
        if CUR_RUN.load(Ordering::Relaxed) != u64::MAX {
            CUR_SINCE_MS.store(now_ms(*t0), Ordering::Relaxed);
        }
    }
}

fn now_ms(t0: Instant) -> u64 {
    t0.elapsed().as_millis() as u64
}

pub struct WorkerArgs {
    pub prop: String,
    pub tier: String,
    pub seed: u64,
    pub w: u64,
    pub nworkers: u64,
    pub nruns: u64,
    pub start: u64,
    pub workdir: PathBuf,
    pub replay_dir: PathBuf,
    pub wall_cap: Duration,
    pub keep_digests: bool,
    pub reverse: bool,
}

pub fn worker(a: WorkerArgs) -> i32 {
    let t0 = Instant::now();
    let _ = T0.set(t0);
    // silence panic messages from library code under catch_unwind (they are reported as violations)
    std::panic::set_hook(Box::new(|_| {}));
    let cur_path = a.workdir.join(format!("w{}.cur", a.w));
    let mut cur_file = std::fs::OpenOptions::new().create(true).write(true).truncate(true).open(&cur_path).expect("cur file");
    // watchdog: a run that makes no progress for 20 s is a hang (the longest legitimate run takes milliseconds; the margin is for a loaded machine)
    {
        let wpath = a.workdir.join(format!("w{}.hang", a.w));
        std::thread::spawn(move || loop {
            std::thread::sleep(Duration::from_millis(250));
            let run = CUR_RUN.load(Ordering::SeqCst);
            let since = CUR_SINCE_MS.load(Ordering::SeqCst);
            if run != u64::MAX && now_ms(t0).saturating_sub(since) > 20_000 {
                let _ = std::fs::write(&wpath, run.to_string());
                std::process::exit(3);
            }
        });
    }
    let mut out = WorkerOut::default();
    let mut shapes: HashSet<u64> = HashSet::new();
    let mut seen_sigs: HashSet<String> = HashSet::new();
    let names = prop_names(&a.prop);
    let mut idxs: Vec<u64> = (a.start..a.nruns).filter(|i| i % a.nworkers == a.w).collect();
    if a.reverse {
        idxs.reverse();
    }
    for i in idxs {
        if t0.elapsed() > a.wall_cap {
            out.stopped_early = true;
            break;
        }
        // write-ahead
        use std::io::Seek;
        let _ = cur_file.seek(std::io::SeekFrom::Start(0));
        let _ = cur_file.write_all(format!("{i:020}").as_bytes());
        CUR_SINCE_MS.store(now_ms(t0), Ordering::SeqCst);
        CUR_RUN.store(i, Ordering::SeqCst);

        let rs = run_seed(a.seed, &a.prop, &a.tier, i);
        let mut rng = Rng::new(rs);
        let sc = generate(&a.prop, &mut rng, &a.tier);
        let r = execute(&sc, false);
        CUR_RUN.store(u64::MAX, Ordering::SeqCst);

        out.runs += 1;
        out.events += r.events;
        out.execs += r.execs;
        out.stats.merge(&r.stats);
        let nodes = sc.ty.count_nodes() + sc.doc.as_ref().and_then(|d| d.tree.as_ref()).map(|t| t.count()).unwrap_or(0);
        if nodes >= 3 {
            out.nontrivial += 1;
            shapes.insert(r.shape);
        }
        if a.keep_digests {
            out.digests.push((i, r.digest));
        }
        if out.samples.len() < 3 && nodes >= 4 && nodes <= 14 {
            out.samples.push(serde_json::json!({"run": i, "run_seed": format!("{rs:#x}"), "scenario": sc, "rendering": human_rendering(&sc)}));
        }
        if let Some(e) = &r.harness_error {
            out.harness_errors.push(format!("run {i}: {e}"));
            if out.harness_errors.len() > 5 {
                break;
            }
            continue;
        }
        if !r.violations.is_empty() {
            out.violation_count += r.violations.len() as u64;
            for v in &r.violations {
                // (determinism audits only need digests: SIM_NO_MINIMISE skips shrinking and replay files)
                if seen_sigs.contains(&v.signature) || seen_sigs.len() >= 8 || std::env::var_os("SIM_NO_MINIMISE").is_some() {
                    continue;
                }
                seen_sigs.insert(v.signature.clone());
                // minimise (the candidate is written ahead so a crash during shrinking is attributable)
                CUR_SINCE_MS.store(now_ms(t0) + 30_000, Ordering::SeqCst); // shrinking gets its own budget
                let exec = |s: &Scenario| execute(s, false);
                let (min_sc, execs) = crate::min::minimise(&sc, &v.signature, names, &exec, 3000, Duration::from_secs(10));
                let rr = execute(&min_sc, true);
                let verdict = rr.violations.iter().find(|x| x.signature == v.signature).cloned().unwrap_or_else(|| v.clone());
                let mut human = human_rendering(&min_sc);
                human.push("--- event log of the failing execution ---".into());
                human.extend(rr.log.iter().cloned());
                let rf = ReplayFile {
                    format: 1,
                    property: a.prop.clone(),
                    tier: a.tier.clone(),
                    verif_seed: a.seed,
                    run: i,
                    run_seed: format!("{rs:#x}"),
                    build: build_name().to_string(),
                    minimised: true,
                    shrink_execs: execs,
                    features: features_of(&min_sc),
                    scenario: min_sc,
                    verdict: verdict.clone(),
                    digest: format!("{:#x}", rr.digest),
                    human,
                };
                let path = a.replay_dir.join(format!("{}-{}-{}-{}-{:08x}.json", a.prop, build_name(), a.seed, i, crate::rng::fnv(v.signature.as_bytes()) as u32));
                let _ = std::fs::create_dir_all(&a.replay_dir);
                std::fs::write(&path, serde_json::to_string_pretty(&rf).unwrap()).expect("write replay");
                out.violations.push(FoundViolation { run: i, replay: path.display().to_string(), verdict, features: rf.features.clone() });
            }
        }
    }
    out.shapes = shapes.into_iter().collect();
    out.shapes.sort();
    let p = a.workdir.join(format!("w{}.json", a.w));
    std::fs::write(&p, serde_json::to_string(&out).unwrap()).expect("write worker out");
    0
}

#[derive(Clone, Debug, Default, Serialize, Deserialize)]
pub struct BatchOut {
    pub build: String,
    pub runs: u64,
    pub nontrivial: u64,
    pub events: u64,
    pub execs: u64,
    pub stats: Stats,
    pub distinct_shapes: u64,
    pub shapes: Vec<u64>,
    pub digests: BTreeMap<u64, u64>,
    pub violations: Vec<FoundViolation>,
    pub violation_count: u64,
    pub samples: Vec<serde_json::Value>,
    pub harness_errors: Vec<String>,
    pub stopped_early: bool,
    pub wall_s: f64,
    pub crashes: Vec<String>,
}

pub struct BatchArgs {
    pub exe: PathBuf,
    pub prop: String,
    pub tier: String,
    pub seed: u64,
    pub nworkers: u64,
    pub nruns: u64,
    pub workdir: PathBuf,
    pub replay_dir: PathBuf,
    pub wall_cap: Duration,
    pub keep_digests: bool,
    pub reverse: bool,
}

/// Run one batch with this binary's build configuration (parent side).
pub fn batch(a: &BatchArgs) -> BatchOut {
    let t0 = Instant::now();
    let _ = std::fs::remove_dir_all(&a.workdir);
    std::fs::create_dir_all(&a.workdir).expect("workdir");
    let mut bo = BatchOut { build: build_name().to_string(), ..Default::default() };
    let spawn = |w: u64, start: u64| {
        std::process::Command::new(&a.exe)
            .arg("worker")
            .arg(&a.prop)
            .arg(&a.tier)
            .arg(a.seed.to_string())
            .arg(w.to_string())
            .arg(a.nworkers.to_string())
            .arg(a.nruns.to_string())
            .arg(start.to_string())
            .arg(&a.workdir)
            .arg(&a.replay_dir)
            .arg(a.wall_cap.as_secs().to_string())
            .arg(if a.keep_digests { "1" } else { "0" })
            .arg(if a.reverse { "1" } else { "0" })
            .stdout(std::process::Stdio::inherit())
            .stderr(std::process::Stdio::inherit())
            .spawn()
            .expect("spawn worker")
    };
    let mut children: Vec<(u64, std::process::Child, u32)> = (0..a.nworkers).map(|w| (w, spawn(w, 0), 0)).collect();
    let mut partials: Vec<WorkerOut> = Vec::new();
    while let Some((w, mut ch, restarts)) = children.pop() {
        let st = ch.wait().expect("wait");
        let outp = a.workdir.join(format!("w{w}.json"));
        if st.success() && outp.exists() {
            let wo: WorkerOut = serde_json::from_str(&std::fs::read_to_string(&outp).unwrap()).expect("worker json");
            partials.push(wo);
            let _ = std::fs::remove_file(&outp);
            continue;
        }
        // abnormal end: attribute to the write-ahead index
        let cur = std::fs::read_to_string(a.workdir.join(format!("w{w}.cur"))).ok().and_then(|s| s.trim().parse::<u64>().ok());
        let hang = a.workdir.join(format!("w{w}.hang")).exists();
        let _ = std::fs::remove_file(a.workdir.join(format!("w{w}.hang")));
        match cur {
            Some(i) if !a.reverse && restarts < 20 => {
                let kind = if hang { "hang" } else { "abort" };
                let rs = run_seed(a.seed, &a.prop, &a.tier, i);
                let mut rng = Rng::new(rs);
                let sc = generate(&a.prop, &mut rng, &a.tier);
                let verdict = Violation {
                    oracle: format!("{}/1", a.prop),
                    signature: format!("{}/{kind}", a.prop),
                    detail: format!("worker process ended abnormally ({st}) while executing run {i}: the library neither returned a result nor an error ({kind})"),
                };
                let rf = ReplayFile {
                    format: 1,
                    property: a.prop.clone(),
                    tier: a.tier.clone(),
                    verif_seed: a.seed,
                    run: i,
                    run_seed: format!("{rs:#x}"),
                    build: build_name().to_string(),
                    minimised: false,
                    shrink_execs: 0,
                    features: features_of(&sc),
                    human: human_rendering(&sc),
                    scenario: sc,
                    verdict: verdict.clone(),
                    digest: "0x0".into(),
                };
                let path = a.replay_dir.join(format!("{}-{}-{}-{}.json", a.prop, build_name(), a.seed, i));
                let _ = std::fs::create_dir_all(&a.replay_dir);
                std::fs::write(&path, serde_json::to_string_pretty(&rf).unwrap()).expect("write replay");
                bo.crashes.push(format!("worker {w} {kind} at run {i} ({st})"));
                bo.violations.push(FoundViolation { run: i, replay: path.display().to_string(), verdict, features: rf.features });
                bo.violation_count += 1;
                // NB: results of the runs this worker had completed before the crash are lost (counted as not run)
                children.push((w, spawn(w, i + 1), restarts + 1));
            }
            _ => bo.harness_errors.push(format!("worker {w} ended abnormally ({st}) and could not be attributed")),
        }
    }
    let mut shapes: HashSet<u64> = HashSet::new();
    for p in partials {
        bo.runs += p.runs;
        bo.nontrivial += p.nontrivial;
        bo.events += p.events;
        bo.execs += p.execs;
        bo.stats.merge(&p.stats);
        shapes.extend(p.shapes);
        for (i, d) in p.digests {
            bo.digests.insert(i, d);
        }
        bo.violation_count += p.violation_count;
        bo.violations.extend(p.violations);
        bo.samples.extend(p.samples);
        bo.harness_errors.extend(p.harness_errors);
        bo.stopped_early |= p.stopped_early;
    }
    bo.samples.sort_by_key(|s| s["run"].as_u64().unwrap_or(0));
    bo.samples.truncate(4);
    bo.distinct_shapes = shapes.len() as u64;
    bo.shapes = shapes.into_iter().collect();
    bo.shapes.sort();
    bo.violations.sort_by_key(|v| v.run);
    bo.wall_s = t0.elapsed().as_secs_f64();
    bo
}

pub fn replay(path: &Path, verbose: bool) -> Result<(ReplayFile, RunOut), String> {
    let txt = std::fs::read_to_string(path).map_err(|e| format!("cannot read {}: {e}", path.display()))?;
    // scenarios may nest far deeper than serde_json's default limit of 128 (deep-nesting workloads)
    let mut de = serde_json::Deserializer::from_str(&txt);
    de.disable_recursion_limit();
    let rf: ReplayFile = serde::Deserialize::deserialize(&mut de).map_err(|e| format!("cannot parse {}: {e}", path.display()))?;
    if rf.build != build_name() {
        return Err(format!("replay file is for build `{}`, this binary is `{}`", rf.build, build_name()));
    }
    let r = execute(&rf.scenario, verbose);
    Ok((rf, r))
}
