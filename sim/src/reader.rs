//! Reader peer R(T): a `DeserializeSeed` that asks the deserializer exactly what `serde_derive`
//! (and serde's std impls) would ask for type `T`, and returns a dynamic value. Leaves delegate to
//! the *real* impls (`i8::deserialize`, `String::deserialize`, `Datetime::deserialize`,
//! `toml::Value::deserialize`, `IgnoredAny`), so narrowing etc. behaves exactly as in user code.

use crate::types::*;
use serde::de::{self, Deserialize, DeserializeSeed, Deserializer, EnumAccess, Error as _, IgnoredAny, MapAccess, SeqAccess, VariantAccess, Visitor};
use std::cell::Cell;
use std::fmt;

pub const H8_STOP: u32 = 1;
/// hand-written leaf visitors: an integer visitor that implements `visit_i64` only, a float visitor
/// that implements `visit_f64` only (TOML integers are i64, floats f64: what a careful hand-written
/// `Deserialize` impl for a TOML-only type relies on); asked through `deserialize_any` or the typed hint
pub const H9_NARROW: u32 = 2;

#[derive(Debug)]
pub struct RCfg {
    pub hmask: u32,
    pub hseed: u64,
    ctr: Cell<u64>,
    pub stops: Cell<u32>,
}
impl RCfg {
    pub fn new(hmask: u32, hseed: u64) -> Self {
        RCfg { hmask, hseed, ctr: Cell::new(0), stops: Cell::new(0) }
    }
    pub fn plain() -> Self {
        Self::new(0, 0)
    }
    pub fn reset(&self) {
        self.ctr.set(0);
        self.stops.set(0);
    }
    fn flag(&self, bit: u32) -> bool {
        if self.hmask & bit == 0 {
            return false;
        }
        let c = self.ctr.get();
        self.ctr.set(c + 1);
        crate::rng::mix(&[self.hseed, c, bit as u64]) % 3 == 0
    }
}

#[derive(Clone, Copy)]
pub struct R<'a> {
    pub ty: &'a Ty,
    pub cfg: &'a RCfg,
}

impl<'de, 'a> DeserializeSeed<'de> for R<'a> {
    type Value = Val;
    fn deserialize<D: Deserializer<'de>>(self, d: D) -> Result<Val, D::Error> {
        let cfg = self.cfg;
        if cfg.hmask & H9_NARROW != 0 {
            let range: Option<(i128, i128)> = match self.ty {
                Ty::I8 => Some((i8::MIN as i128, i8::MAX as i128)),
                Ty::I16 => Some((i16::MIN as i128, i16::MAX as i128)),
                Ty::I32 => Some((i32::MIN as i128, i32::MAX as i128)),
                Ty::I64 => Some((i64::MIN as i128, i64::MAX as i128)),
                Ty::U8 => Some((0, u8::MAX as i128)),
                Ty::U16 => Some((0, u16::MAX as i128)),
                Ty::U32 => Some((0, u32::MAX as i128)),
                Ty::U64 => Some((0, u64::MAX as i128)),
                _ => None,
            };
            if let Some((lo, hi)) = range {
                if cfg.flag(H9_NARROW) {
                    let v = OnlyI64 { lo, hi };
                    return if cfg.flag(H9_NARROW) { d.deserialize_any(v) } else { d.deserialize_i64(v) };
                }
            }
            if *self.ty == Ty::F64 && cfg.flag(H9_NARROW) {
                return if cfg.flag(H9_NARROW) { d.deserialize_any(OnlyF64) } else { d.deserialize_f64(OnlyF64) };
            }
        }
        match self.ty {
            Ty::Bool => bool::deserialize(d).map(Val::Bool),
            Ty::I8 => i8::deserialize(d).map(|x| Val::Int(x as i128)),
            Ty::I16 => i16::deserialize(d).map(|x| Val::Int(x as i128)),
            Ty::I32 => i32::deserialize(d).map(|x| Val::Int(x as i128)),
            Ty::I64 => i64::deserialize(d).map(|x| Val::Int(x as i128)),
            Ty::U8 => u8::deserialize(d).map(|x| Val::Int(x as i128)),
            Ty::U16 => u16::deserialize(d).map(|x| Val::Int(x as i128)),
            Ty::U32 => u32::deserialize(d).map(|x| Val::Int(x as i128)),
            Ty::U64 => u64::deserialize(d).map(|x| Val::Int(x as i128)),
            Ty::I128 => i128::deserialize(d).map(Val::Int),
            Ty::U128 => u128::deserialize(d).map(|x| Val::Int(x as i128)),
            Ty::F32 => f32::deserialize(d).map(|x| Val::F32(x.to_bits())),
            Ty::F64 => f64::deserialize(d).map(|x| Val::F64(x.to_bits())),
            Ty::Char => char::deserialize(d).map(Val::Char),
            Ty::Str => String::deserialize(d).map(Val::Str),
            Ty::Datetime => toml_datetime::Datetime::deserialize(d).map(|x| Val::Dt(Dt::from_real(&x))),
            Ty::Date => toml_datetime::Date::deserialize(d).map(|x| Val::Dt(Dt { date: Some((x.year, x.month, x.day)), time: None, offset: None })),
            Ty::Time => toml_datetime::Time::deserialize(d)
                .map(|x| Val::Dt(Dt { date: None, time: Some((x.hour, x.minute, x.second, x.nanosecond)), offset: None })),
            Ty::Option(t) => d.deserialize_option(OptV { t, cfg }),
            Ty::Seq(t) => d.deserialize_seq(SeqV { t, cfg }),
            Ty::Tuple(ts) => d.deserialize_tuple(ts.len(), TupV { ts, cfg, what: None }),
            Ty::TupleStruct(name, ts) => d.deserialize_tuple_struct(intern(name), ts.len(), TupV { ts, cfg, what: Some(format!("tuple struct {name}")) }),
            Ty::Map(kt, vt) => d.deserialize_map(MapV { kt, vt, cfg }),
            Ty::Struct(name, fs) => {
                let names: Vec<String> = fs.iter().map(|(f, _)| f.clone()).collect();
                d.deserialize_struct(intern(name), intern_list(&names), StructV { fs, cfg, what: format!("struct {name}") })
            }
            Ty::Newtype(name, t) => d.deserialize_newtype_struct(intern(name), NewtypeV { t, cfg, name }),
            Ty::Enum(name, vars) => {
                let names: Vec<String> = vars.iter().map(|(f, _)| f.clone()).collect();
                d.deserialize_enum(intern(name), intern_list(&names), EnumV { vars, cfg, name })
            }
            Ty::Unit => <()>::deserialize(d).map(|_| Val::Unit),
            Ty::UnitStruct(name) => d.deserialize_unit_struct(intern(name), UnitV { name }),
            Ty::Any => toml::Value::deserialize(d).map(|v| Val::Any(Tree::from_value(&v))),
            Ty::Spanned(t) => {
                static FIELDS: [&str; 3] = [
                    serde_spanned::__unstable::START_FIELD,
                    serde_spanned::__unstable::END_FIELD,
                    serde_spanned::__unstable::VALUE_FIELD,
                ];
                d.deserialize_struct(serde_spanned::__unstable::NAME, &FIELDS, SpannedV { t, cfg })
            }
        }
    }
}

struct OnlyI64 {
    lo: i128,
    hi: i128,
}
impl<'de> Visitor<'de> for OnlyI64 {
    type Value = Val;
    fn expecting(&self, f: &mut fmt::Formatter<'_>) -> fmt::Result {
        write!(f, "a TOML integer between {} and {}", self.lo, self.hi)
    }
    fn visit_i64<E: de::Error>(self, v: i64) -> Result<Val, E> {
        if (v as i128) < self.lo || (v as i128) > self.hi {
            return Err(E::invalid_value(de::Unexpected::Signed(v), &self));
        }
        Ok(Val::Int(v as i128))
    }
}
struct OnlyF64;
impl<'de> Visitor<'de> for OnlyF64 {
    type Value = Val;
    fn expecting(&self, f: &mut fmt::Formatter<'_>) -> fmt::Result {
        f.write_str("a TOML float")
    }
    fn visit_f64<E: de::Error>(self, v: f64) -> Result<Val, E> {
        Ok(Val::F64(v.to_bits()))
    }
}

pub struct RKey<'a> {
    pub kt: &'a KeyTy,
    pub cfg: &'a RCfg,
}
impl<'de, 'a> DeserializeSeed<'de> for RKey<'a> {
    type Value = Val;
    fn deserialize<D: Deserializer<'de>>(self, d: D) -> Result<Val, D::Error> {
        match self.kt {
            KeyTy::Str => String::deserialize(d).map(Val::Str),
            KeyTy::SpannedStr => R { ty: &Ty::Spanned(Box::new(Ty::Str)), cfg: self.cfg }.deserialize(d),
            KeyTy::NewtypeSpanned(name) => d.deserialize_newtype_struct(intern(name), NewtypeV { t: &Ty::Spanned(Box::new(Ty::Str)), cfg: self.cfg, name }),
            KeyTy::UnitVariant(name, vars) => {
                let vars: Vec<(String, VarTy)> = vars.iter().map(|v| (v.clone(), VarTy::Unit)).collect();
                let names: Vec<String> = vars.iter().map(|(f, _)| f.clone()).collect();
                d.deserialize_enum(intern(name), intern_list(&names), EnumV { vars: &vars, cfg: self.cfg, name })
            }
            KeyTy::NewtypeStr(name) => d.deserialize_newtype_struct(intern(name), NewtypeV { t: &Ty::Str, cfg: self.cfg, name }),
            KeyTy::I64 => i64::deserialize(d).map(|x| Val::Int(x as i128)),
            KeyTy::SpannedI64 => R { ty: &Ty::Spanned(Box::new(Ty::I64)), cfg: self.cfg }.deserialize(d),
            KeyTy::SpannedKey(_) => R { ty: &self.kt.as_ty(), cfg: self.cfg }.deserialize(d),
            KeyTy::Bool => bool::deserialize(d).map(Val::Bool),
            KeyTy::Char => char::deserialize(d).map(Val::Char),
        }
    }
}

struct OptV<'a> {
    t: &'a Ty,
    cfg: &'a RCfg,
}
impl<'de, 'a> Visitor<'de> for OptV<'a> {
    type Value = Val;
    fn expecting(&self, f: &mut fmt::Formatter<'_>) -> fmt::Result {
        f.write_str("option")
    }
    fn visit_none<E: de::Error>(self) -> Result<Val, E> {
        Ok(Val::None)
    }
    fn visit_unit<E: de::Error>(self) -> Result<Val, E> {
        Ok(Val::None)
    }
    fn visit_some<D: Deserializer<'de>>(self, d: D) -> Result<Val, D::Error> {
        R { ty: self.t, cfg: self.cfg }.deserialize(d).map(|v| Val::Some(Box::new(v)))
    }
}

struct SeqV<'a> {
    t: &'a Ty,
    cfg: &'a RCfg,
}
impl<'de, 'a> Visitor<'de> for SeqV<'a> {
    type Value = Val;
    fn expecting(&self, f: &mut fmt::Formatter<'_>) -> fmt::Result {
        f.write_str("a sequence")
    }
    fn visit_seq<A: SeqAccess<'de>>(self, mut a: A) -> Result<Val, A::Error> {
        let _ = a.size_hint();
        let mut out = Vec::new();
        while let Some(x) = a.next_element_seed(R { ty: self.t, cfg: self.cfg })? {
            out.push(x);
            if self.cfg.flag(H8_STOP) {
                self.cfg.stops.set(self.cfg.stops.get() + 1);
                break;
            }
        }
        Ok(Val::Seq(out))
    }
}

struct TupV<'a> {
    ts: &'a [Ty],
    cfg: &'a RCfg,
    /// None: a std tuple; Some(what): "tuple struct Name" / "tuple variant Enum::Variant"
    what: Option<String>,
}
fn with_elements(what: &str, n: usize) -> String {
    format!("{what} with {n} element{}", if n == 1 { "" } else { "s" })
}
impl<'de, 'a> Visitor<'de> for TupV<'a> {
    type Value = Val;
    fn expecting(&self, f: &mut fmt::Formatter<'_>) -> fmt::Result {
        match &self.what {
            None => write!(f, "a tuple of size {}", self.ts.len()),
            Some(w) => f.write_str(w),
        }
    }
    fn visit_seq<A: SeqAccess<'de>>(self, mut a: A) -> Result<Val, A::Error> {
        let mut out = Vec::new();
        for (i, t) in self.ts.iter().enumerate() {
            match a.next_element_seed(R { ty: t, cfg: self.cfg })? {
                Some(x) => out.push(x),
                None => {
                    return Err(match &self.what {
                        None => A::Error::invalid_length(i, &self),
                        Some(w) => A::Error::invalid_length(i, &with_elements(w, self.ts.len()).as_str()),
                    })
                }
            }
        }
        Ok(Val::Seq(out))
    }
}

struct MapV<'a> {
    kt: &'a KeyTy,
    vt: &'a Ty,
    cfg: &'a RCfg,
}
impl<'de, 'a> Visitor<'de> for MapV<'a> {
    type Value = Val;
    fn expecting(&self, f: &mut fmt::Formatter<'_>) -> fmt::Result {
        f.write_str("a map")
    }
    fn visit_map<A: MapAccess<'de>>(self, mut a: A) -> Result<Val, A::Error> {
        // (BTreeMap's visitor, unlike HashMap's, does not ask for a size hint)
        let mut out = Vec::new();
        // `while let Some((k, v)) = map.next_entry()?` — what BTreeMap / HashMap do
        while let Some((k, v)) = a.next_entry_seed(RKey { kt: self.kt, cfg: self.cfg }, R { ty: self.vt, cfg: self.cfg })? {
            out.push((k, v));
            if self.cfg.flag(H8_STOP) {
                self.cfg.stops.set(self.cfg.stops.get() + 1);
                break;
            }
        }
        Ok(Val::Map(out))
    }
}

/// `__Field` of serde_derive: index of a known field, or None for `__ignore`
struct FieldSeed<'a> {
    names: &'a [(String, Ty)],
}
impl<'de, 'a> DeserializeSeed<'de> for FieldSeed<'a> {
    type Value = Option<usize>;
    fn deserialize<D: Deserializer<'de>>(self, d: D) -> Result<Option<usize>, D::Error> {
        d.deserialize_identifier(self)
    }
}
impl<'de, 'a> Visitor<'de> for FieldSeed<'a> {
    type Value = Option<usize>;
    fn expecting(&self, f: &mut fmt::Formatter<'_>) -> fmt::Result {
        f.write_str("field identifier")
    }
    fn visit_u64<E: de::Error>(self, v: u64) -> Result<Option<usize>, E> {
        Ok(if (v as usize) < self.names.len() { Some(v as usize) } else { None })
    }
    fn visit_str<E: de::Error>(self, v: &str) -> Result<Option<usize>, E> {
        Ok(self.names.iter().position(|(n, _)| n == v))
    }
    fn visit_bytes<E: de::Error>(self, v: &[u8]) -> Result<Option<usize>, E> {
        Ok(self.names.iter().position(|(n, _)| n.as_bytes() == v))
    }
}

struct StructV<'a> {
    fs: &'a [(String, Ty)],
    cfg: &'a RCfg,
    /// "struct Name" / "struct variant Enum::Variant"
    what: String,
}
impl<'de, 'a> Visitor<'de> for StructV<'a> {
    type Value = Val;
    fn expecting(&self, f: &mut fmt::Formatter<'_>) -> fmt::Result {
        f.write_str(&self.what)
    }
    fn visit_seq<A: SeqAccess<'de>>(self, mut a: A) -> Result<Val, A::Error> {
        let mut out = Vec::new();
        for (i, (_, t)) in self.fs.iter().enumerate() {
            match a.next_element_seed(R { ty: t, cfg: self.cfg })? {
                Some(x) => out.push(x),
                None => return Err(A::Error::invalid_length(i, &with_elements(&self.what, self.fs.len()).as_str())),
            }
        }
        Ok(Val::Struct(out))
    }
    fn visit_map<A: MapAccess<'de>>(self, mut a: A) -> Result<Val, A::Error> {
        let mut slots: Vec<Option<Val>> = vec![None; self.fs.len()];
        while let Some(k) = a.next_key_seed(FieldSeed { names: self.fs })? {
            match k {
                Some(i) => {
                    if slots[i].is_some() {
                        return Err(A::Error::duplicate_field(intern(&self.fs[i].0)));
                    }
                    slots[i] = Some(a.next_value_seed(R { ty: &self.fs[i].1, cfg: self.cfg })?);
                }
                None => {
                    let _: IgnoredAny = a.next_value()?;
                }
            }
        }
        let mut out = Vec::new();
        for (i, s) in slots.into_iter().enumerate() {
            match s {
                Some(v) => out.push(v),
                None => match &self.fs[i].1 {
                    Ty::Option(_) => out.push(Val::None),
                    _ => return Err(A::Error::missing_field(intern(&self.fs[i].0))),
                },
            }
        }
        Ok(Val::Struct(out))
    }
}

struct NewtypeV<'a> {
    t: &'a Ty,
    cfg: &'a RCfg,
    name: &'a str,
}
impl<'de, 'a> Visitor<'de> for NewtypeV<'a> {
    type Value = Val;
    fn expecting(&self, f: &mut fmt::Formatter<'_>) -> fmt::Result {
        write!(f, "tuple struct {}", self.name)
    }
    fn visit_newtype_struct<D: Deserializer<'de>>(self, d: D) -> Result<Val, D::Error> {
        R { ty: self.t, cfg: self.cfg }.deserialize(d)
    }
    fn visit_seq<A: SeqAccess<'de>>(self, mut a: A) -> Result<Val, A::Error> {
        match a.next_element_seed(R { ty: self.t, cfg: self.cfg })? {
            Some(x) => Ok(x),
            None => Err(A::Error::invalid_length(0, &with_elements(&format!("tuple struct {}", self.name), 1).as_str())),
        }
    }
}

struct VariantSeed<'a> {
    vars: &'a [(String, VarTy)],
}
impl<'de, 'a> DeserializeSeed<'de> for VariantSeed<'a> {
    type Value = usize;
    fn deserialize<D: Deserializer<'de>>(self, d: D) -> Result<usize, D::Error> {
        d.deserialize_identifier(self)
    }
}
impl<'de, 'a> Visitor<'de> for VariantSeed<'a> {
    type Value = usize;
    fn expecting(&self, f: &mut fmt::Formatter<'_>) -> fmt::Result {
        f.write_str("variant identifier")
    }
    fn visit_u64<E: de::Error>(self, v: u64) -> Result<usize, E> {
        if (v as usize) < self.vars.len() {
            Ok(v as usize)
        } else {
            Err(E::invalid_value(de::Unexpected::Unsigned(v), &format!("variant index 0 <= i < {}", self.vars.len()).as_str()))
        }
    }
    fn visit_str<E: de::Error>(self, v: &str) -> Result<usize, E> {
        match self.vars.iter().position(|(n, _)| n == v) {
            Some(i) => Ok(i),
            None => {
                let names: Vec<String> = self.vars.iter().map(|(n, _)| n.clone()).collect();
                Err(E::unknown_variant(v, intern_list(&names)))
            }
        }
    }
    fn visit_bytes<E: de::Error>(self, v: &[u8]) -> Result<usize, E> {
        match self.vars.iter().position(|(n, _)| n.as_bytes() == v) {
            Some(i) => Ok(i),
            None => {
                let names: Vec<String> = self.vars.iter().map(|(n, _)| n.clone()).collect();
                Err(E::unknown_variant(&String::from_utf8_lossy(v), intern_list(&names)))
            }
        }
    }
}

struct EnumV<'a> {
    vars: &'a [(String, VarTy)],
    cfg: &'a RCfg,
    name: &'a str,
}
impl<'de, 'a> Visitor<'de> for EnumV<'a> {
    type Value = Val;
    fn expecting(&self, f: &mut fmt::Formatter<'_>) -> fmt::Result {
        write!(f, "enum {}", self.name)
    }
    fn visit_enum<A: EnumAccess<'de>>(self, a: A) -> Result<Val, A::Error> {
        let (i, variant) = a.variant_seed(VariantSeed { vars: self.vars })?;
        let payload = match &self.vars[i].1 {
            VarTy::Unit => {
                variant.unit_variant()?;
                Val::Unit
            }
            VarTy::Newtype(t) => variant.newtype_variant_seed(R { ty: t, cfg: self.cfg })?,
            VarTy::Tuple(ts) => variant.tuple_variant(ts.len(), TupV { ts, cfg: self.cfg, what: Some(format!("tuple variant {}::{}", self.name, self.vars[i].0)) })?,
            VarTy::Struct(fs) => {
                let names: Vec<String> = fs.iter().map(|(f, _)| f.clone()).collect();
                variant.struct_variant(intern_list(&names), StructV { fs, cfg: self.cfg, what: format!("struct variant {}::{}", self.name, self.vars[i].0) })?
            }
        };
        Ok(Val::Variant(i, Box::new(payload)))
    }
}

struct UnitV<'a> {
    name: &'a str,
}
impl<'de, 'a> Visitor<'de> for UnitV<'a> {
    type Value = Val;
    fn expecting(&self, f: &mut fmt::Formatter<'_>) -> fmt::Result {
        write!(f, "unit struct {}", self.name)
    }
    fn visit_unit<E: de::Error>(self) -> Result<Val, E> {
        Ok(Val::Unit)
    }
}

/// stub of `serde_spanned::Spanned<T>`'s visitor (same protocol, dynamic payload)
struct SpannedV<'a> {
    t: &'a Ty,
    cfg: &'a RCfg,
}
impl<'de, 'a> Visitor<'de> for SpannedV<'a> {
    type Value = Val;
    fn expecting(&self, f: &mut fmt::Formatter<'_>) -> fmt::Result {
        f.write_str("a spanned value")
    }
    fn visit_map<A: MapAccess<'de>>(self, mut a: A) -> Result<Val, A::Error> {
        use serde_spanned::__unstable::{END_FIELD, START_FIELD, VALUE_FIELD};
        let mut start: Option<usize> = None;
        let mut end: Option<usize> = None;
        let mut value: Option<Val> = None;
        while let Some(key) = a.next_key::<&'de str>()? {
            if key == START_FIELD {
                if start.is_some() {
                    return Err(A::Error::duplicate_field(START_FIELD));
                }
                start = Some(a.next_value()?);
            } else if key == END_FIELD {
                if end.is_some() {
                    return Err(A::Error::duplicate_field(END_FIELD));
                }
                end = Some(a.next_value()?);
            } else if key == VALUE_FIELD {
                if value.is_some() {
                    return Err(A::Error::duplicate_field(VALUE_FIELD));
                }
                value = Some(a.next_value_seed(R { ty: self.t, cfg: self.cfg })?);
            } else {
                return Err(A::Error::unknown_field(key, &[START_FIELD, END_FIELD, VALUE_FIELD]));
            }
        }
        match (start, end, value) {
            (Some(s), Some(e), Some(v)) => Ok(Val::Spanned(s, e, Box::new(v))),
            (None, _, _) => Err(A::Error::missing_field(START_FIELD)),
            (_, None, _) => Err(A::Error::missing_field(END_FIELD)),
            (_, _, None) => Err(A::Error::missing_field(VALUE_FIELD)),
        }
    }
}
