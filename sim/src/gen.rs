//! Workload generator: type descriptions, values, trees. Everything is drawn from one `Rng`; the
//! result is a fully explicit scenario, so execution itself never draws.

use crate::rng::Rng;
use crate::types::*;

pub const PLAIN_NAMES: &[&str] = &[
    "a", "b", "c", "d", "e", "f", "name", "id", "key", "value", "x", "y", "z", "items", "owner", "kind", "data", "opt", "list", "map", "t0", "t1",
    "zz", "aa", "m", "n",
];
/// legal but awkward key strings (empty, dotted, quoted, spaces, newlines, non-ASCII, keyword-like, date-like)
pub const ODD_NAMES: &[&str] = &[
    "", "a.b", "a b", "\"q\"", "'", "'s'", "é", "日本", "true", "false", "inf", "nan", "1979-05-27", "123", "1.5", "-", "_", "a\nb", "\t", "\\",
    "#c", "=", "[x]", "{y}", ",", "a\"b'c", "\u{7f}", "\u{0}", "\r", "🦀", "ʎǝʞ", "a\\u0041", "''''", "\"\"\"", " ", "A", "Z9", "-1", "+1", "0x10", "1e3",
    "07:32:00", "a-b_c", "ſ",
];
pub const TYPE_NAMES: &[&str] = &["S0", "S1", "S2", "S3", "Inner", "Outer", "Cfg", "Point", "Wrapper", "Rec"];
pub const ENUM_NAMES: &[&str] = &["E0", "E1", "Kind", "Shape", "Choice"];
pub const VAR_NAMES: &[&str] = &["A", "B", "C", "Unit", "New", "Tup", "St", "None", "Some", "v0", "v1", "X"];

pub const STR_CHARS: &[char] = &[
    '"', '\'', '\\', '\n', '\r', '\t', '\0', '\u{1}', '\u{8}', '\u{c}', '\u{1f}', '\u{7f}', '#', 'a', 'b', 'Z', '0', ' ', '=', '.', ',', '[', ']', '{',
    '}', 'é', 'ß', '日', '本', '🦀', '\u{80}', '\u{a0}', '\u{ffff}', '\u{10ffff}', '\u{feff}', '\u{2028}', 'u', 'x', '-', ':', 'T', 'e', '+', '_',
];
pub const STR_POOL: &[&str] = &[
    "", "a", "hello world", "\"", "\"\"", "\"\"\"", "\"\"\"\"", "'", "''", "'''", "''''", "\\", "\\\\", "\n", "\r\n", "\r", "a\nb", "\n\n", " \n",
    "\\\n", "tab\there", "\u{0}", "\u{7f}", "# not a comment", "é", "日本語", "🦀🦀", "true", "1979-05-27T07:32:00Z", "inf", "nan", "0x1f", "1_000",
    "'''\n\"\"\"", "a'b\"c", "trailing\\", "\"quoted\"", " lead", "trail ", "\u{feff}bom", "line1\nline2\nline3", "\u{1b}[0m", "\u{85}", "''\"\"",
];

pub const F64_SPECIAL: &[u64] = &[
    0x0000000000000000, // 0.0
    0x8000000000000000, // -0.0
    0x3ff0000000000000, // 1.0
    0xbff0000000000000, // -1.0
    0x7ff0000000000000, // inf
    0xfff0000000000000, // -inf
    0x7ff8000000000000, // nan
    0xfff8000000000000, // -nan
    0x7ff8000000000001, // nan payload
    0x7ff0000000000001, // signalling nan
    0x0000000000000001, // min subnormal
    0x000fffffffffffff, // max subnormal
    0x0010000000000000, // min normal
    0x7fefffffffffffff, // max
    0xffefffffffffffff, // -max
    0x4341c37937e08000, // 1e16
    0x4340000000000000, // 2^53
    0x433fffffffffffff, // 2^53-1
    0x7e37e43c8800759c, // 1e300
    0x3fb999999999999a, // 0.1
    0x3fd5555555555555, // 1/3
    0x4059000000000000, // 100.0
    0x408f400000000000, // 1000.0
    0x3eb0c6f7a0b5ed8d, // 1e-6
    0x3e7ad7f29abcaf48, // 1e-7
    0x44b52d02c7e14af6, // 1e23
    0x43e0000000000000, // 2^63
    0xc3e0000000000000, // -2^63
];
pub const F32_SPECIAL: &[u32] = &[
    0x00000000, 0x80000000, 0x3f800000, 0xbf800000, 0x7f800000, 0xff800000, 0x7fc00000, 0xffc00000, 0x7fc00001, 0x00000001, 0x007fffff, 0x00800000,
    0x7f7fffff, 0xff7fffff, 0x3dcccccd, 0x3eaaaaab, 0x4b800000, 0x5f000000, 0x33d6bf95,
    // the (only) f32 magnitude whose shortest decimal string, parsed as f64 and narrowed again, lands 1 ulp off
    // (double rounding): a serializer that prints f32 through its decimal string loses it
    0x15ae43fd, 0x95ae43fd,
];

pub const DT_STRINGS: &[&str] = &[
    "1979-05-27T07:32:00Z",
    "1979-05-27T00:32:00-07:00",
    "1979-05-27T00:32:00.999999-07:00",
    "1979-05-27 07:32:00Z",
    "1979-05-27t07:32:00z",
    "1979-05-27T07:32:00",
    "1979-05-27T00:32:00.999999",
    "1979-05-27",
    "07:32:00",
    "00:32:00.999999",
    "0000-01-01",
    "9999-12-31T23:59:60.999999999+23:59",
    "2000-02-29",
    "2024-02-29T12:00:00.5Z",
    "1987-07-05T17:45:00.123456789012Z",
    "23:59:60",
    "00:00:00.000000001",
    "1979-05-27T07:32:00+00:00",
    "1979-05-27T07:32:00-00:00",
    // accepted by the standalone parser only (D2 family): must not yield unreadable text silently
    "24:00:00",
    "1979-05-27T24:00:00Z",
    "1979-05-27T07:32:00+24:00",
    "1979-05-27T07:32:00-24:00",
    "1979-05-27T07:32:00+00:99",
    "1979-05-27T07:32:00+23:60",
];

#[derive(Clone, Debug)]
pub struct GenCfg {
    pub max_depth: u32,
    pub max_fan: usize,
    pub budget: usize,
    /// out of 100: chance that a node is drawn from the unsupported/edge productions
    pub p_unsupported: u32,
    /// out of 100: adversarial names
    pub p_odd_names: u32,
    pub allow_any: bool,
    pub allow_dt: bool,
    pub allow_float: bool,
    pub allow_enum: bool,
    /// bias towards maps (workload C)
    pub map_heavy: bool,
    /// out of 100: strings from the adversarial char set rather than the pool
    pub p_random_str: u32,
}

impl GenCfg {
    pub fn swarm(rng: &mut Rng) -> GenCfg {
        GenCfg {
            max_depth: 1 + rng.below(5) as u32,
            max_fan: 1 + rng.below(5),
            budget: 8 + rng.below(52),
            p_unsupported: if rng.chance(1, 3) { *rng.pick(&[3, 8, 20]) } else { 0 },
            p_odd_names: *rng.pick(&[0, 0, 10, 40, 90]),
            allow_any: rng.chance(1, 3),
            allow_dt: rng.chance(2, 3),
            allow_float: rng.chance(3, 4),
            allow_enum: rng.chance(3, 4),
            map_heavy: rng.chance(1, 5),
            p_random_str: *rng.pick(&[0, 20, 60]),
        }
    }
}

pub struct Gen<'r> {
    pub rng: &'r mut Rng,
    pub cfg: GenCfg,
    pub left: usize,
}

#[derive(Clone, Copy, PartialEq, Eq)]
pub enum Pos {
    Root,
    Field,
    Elem,
    MapVal,
    Payload,
}

impl<'r> Gen<'r> {
    pub fn new(rng: &'r mut Rng, cfg: GenCfg) -> Self {
        let left = cfg.budget;
        Gen { rng, cfg, left }
    }

    pub fn name(&mut self, used: &[String]) -> String {
        for _ in 0..50 {
            let n = if self.rng.chance(self.cfg.p_odd_names, 100) { *self.rng.pick(ODD_NAMES) } else { *self.rng.pick(PLAIN_NAMES) };
            if !used.iter().any(|u| u == n) {
                return n.to_string();
            }
        }
        format!("k{}", used.len())
    }
    fn vname(&mut self, used: &[String]) -> String {
        for _ in 0..50 {
            let n = if self.rng.chance(self.cfg.p_odd_names / 2, 100) { *self.rng.pick(ODD_NAMES) } else { *self.rng.pick(VAR_NAMES) };
            if !used.iter().any(|u| u == n) {
                return n.to_string();
            }
        }
        format!("V{}", used.len())
    }

    pub fn leaf_ty(&mut self) -> Ty {
        loop {
            let t = match self.rng.below(22) {
                0 => Ty::Bool,
                1 => Ty::I8,
                2 => Ty::I16,
                3 => Ty::I32,
                4 | 5 => Ty::I64,
                6 => Ty::U8,
                7 => Ty::U16,
                8 => Ty::U32,
                9 => Ty::U64,
                10 => Ty::F32,
                11 | 12 => Ty::F64,
                13 => Ty::Char,
                14 | 15 | 16 => Ty::Str,
                17 => Ty::Datetime,
                18 => Ty::Date,
                19 => Ty::Time,
                20 => Ty::Any,
                _ => Ty::Str,
            };
            match t {
                Ty::F32 | Ty::F64 if !self.cfg.allow_float => continue,
                Ty::Datetime | Ty::Date | Ty::Time if !self.cfg.allow_dt => continue,
                Ty::Any if !self.cfg.allow_any => continue,
                t => return t,
            }
        }
    }

    fn unsupported_ty(&mut self, depth: u32) -> Ty {
        match self.rng.below(8) {
            0 => Ty::Unit,
            1 => Ty::UnitStruct(self.rng.pick(TYPE_NAMES).to_string()),
            2 => Ty::I128,
            3 => Ty::U128,
            4 => Ty::Map(self.rng.pick(&[KeyTy::I64, KeyTy::Bool, KeyTy::Char]).clone(), Box::new(self.leaf_ty())),
            5 => Ty::Option(Box::new(Ty::Option(Box::new(self.leaf_ty())))),
            6 => Ty::Seq(Box::new(Ty::Option(Box::new(self.leaf_ty())))),
            _ => Ty::Option(Box::new(self.ty(depth + 1, Pos::Payload))),
        }
    }

    pub fn struct_ty(&mut self, depth: u32) -> Ty {
        // (occasionally a wide struct: more fields than any small-size fast path would expect)
        let n = if self.rng.chance(1, 12) { 0 } else if self.rng.chance(1, 40) { 9 + self.rng.below(8) } else { 1 + self.rng.below(self.cfg.max_fan) };
        let fs = self.fields(n, depth);
        Ty::Struct(self.rng.pick(TYPE_NAMES).to_string(), fs)
    }
    fn fields(&mut self, n: usize, depth: u32) -> Vec<(String, Ty)> {
        let mut fs: Vec<(String, Ty)> = Vec::new();
        for _ in 0..n {
            let used: Vec<String> = fs.iter().map(|(f, _)| f.clone()).collect();
            let name = self.name(&used);
            let mut t = self.ty(depth + 1, Pos::Field);
            if self.rng.chance(1, 5) && !matches!(t, Ty::Option(_) | Ty::Unit | Ty::UnitStruct(_)) {
                t = Ty::Option(Box::new(t));
            }
            fs.push((name, t));
        }
        fs
    }
    pub fn enum_ty(&mut self, depth: u32) -> Ty {
        let n = 1 + self.rng.below(4);
        let mut vars: Vec<(String, VarTy)> = Vec::new();
        for _ in 0..n {
            let used: Vec<String> = vars.iter().map(|(f, _)| f.clone()).collect();
            let name = self.vname(&used);
            let vt = match self.rng.below(4) {
                0 => VarTy::Unit,
                1 => VarTy::Newtype(Box::new(self.ty(depth + 1, Pos::Payload))),
                2 => {
                    let k = 2 + self.rng.below(2);
                    VarTy::Tuple((0..k).map(|_| self.ty(depth + 1, Pos::Elem)).collect())
                }
                _ => {
                    let k = if self.rng.chance(1, 10) { 0 } else if self.rng.chance(1, 25) { 9 + self.rng.below(6) } else { 1 + self.rng.below(3) };
                    VarTy::Struct(self.fields(k, depth))
                }
            };
            vars.push((name, vt));
        }
        Ty::Enum(self.rng.pick(ENUM_NAMES).to_string(), vars)
    }
    pub fn key_ty(&mut self) -> KeyTy {
        match self.rng.below(10) {
            0 => {
                let n = 1 + self.rng.below(4);
                let mut vs: Vec<String> = Vec::new();
                for _ in 0..n {
                    let v = self.vname(&vs);
                    vs.push(v);
                }
                KeyTy::UnitVariant(self.rng.pick(ENUM_NAMES).to_string(), vs)
            }
            1 => KeyTy::NewtypeStr("KeyName".to_string()),
            _ => KeyTy::Str,
        }
    }

    pub fn ty(&mut self, depth: u32, pos: Pos) -> Ty {
        let t = self.ty_inner(depth, pos);
        // Option as a map *value* is deliberately never generated: a `None` there is skipped by
        // design (same rule as for struct fields), which no round trip can observe.
        if pos == Pos::MapVal {
            let mut t = t;
            while let Ty::Option(inner) = t {
                t = *inner;
            }
            return t;
        }
        t
    }
    fn ty_inner(&mut self, depth: u32, pos: Pos) -> Ty {
        if self.left == 0 {
            return self.leaf_ty();
        }
        self.left -= 1;
        if pos == Pos::Root {
            if self.cfg.allow_enum && self.rng.chance(1, 25) {
                // an externally tagged enum as the document root (a newtype variant is a one-key table)
                return self.enum_ty(depth);
            }
            return match self.rng.below(20) {
                0..=12 => self.struct_ty(depth),
                13..=16 => Ty::Map(self.key_ty(), Box::new(self.ty(depth + 1, Pos::MapVal))),
                17 => Ty::Newtype(self.rng.pick(TYPE_NAMES).to_string(), Box::new(self.struct_ty(depth))),
                _ => {
                    if self.cfg.p_unsupported > 0 {
                        // a non-table root: must fail or round-trip
                        self.ty(depth + 1, Pos::Payload)
                    } else {
                        self.struct_ty(depth)
                    }
                }
            };
        }
        if self.cfg.p_unsupported > 0 && self.rng.chance(self.cfg.p_unsupported, 100) {
            return self.unsupported_ty(depth);
        }
        let leafy = depth >= self.cfg.max_depth || self.rng.chance(if self.cfg.map_heavy { 35 } else { 50 }, 100);
        if leafy {
            if self.rng.chance(1, 400) {
                // a deep chain of one-element containers that have to stay inline (well below the
                // parser's nesting limit of 80, which is C05's subject)
                let k = *self.rng.pick(&[20usize, 39, 41, 45, 60]);
                let mut t = self.leaf_ty();
                for i in 0..k {
                    t = if i % 3 == 2 { Ty::Struct("Deep".into(), vec![("d".into(), t)]) } else { Ty::Tuple(vec![t]) };
                }
                return Ty::Seq(Box::new(t));
            }
            return self.leaf_ty();
        }
        let pick = if self.cfg.map_heavy { *self.rng.pick(&[0, 1, 1, 1, 2, 3, 3, 5]) } else { self.rng.below(8) };
        match pick {
            0 => self.struct_ty(depth),
            1 => {
                // Option as map value is deliberately not generated (a None there is skipped by design)
                let mut v = self.ty(depth + 1, Pos::MapVal);
                if let Ty::Option(t) = v {
                    v = *t;
                }
                Ty::Map(self.key_ty(), Box::new(v))
            }
            2 => Ty::Seq(Box::new(self.ty(depth + 1, Pos::Elem))),
            3 => {
                if self.cfg.allow_enum {
                    self.enum_ty(depth)
                } else {
                    self.struct_ty(depth)
                }
            }
            4 => {
                let k = 1 + self.rng.below(3);
                Ty::Tuple((0..k).map(|_| self.ty(depth + 1, Pos::Elem)).collect())
            }
            5 => Ty::Seq(Box::new(if self.rng.chance(1, 2) { self.struct_ty(depth + 1) } else { self.ty(depth + 1, Pos::Elem) })),
            6 => Ty::Newtype(self.rng.pick(TYPE_NAMES).to_string(), Box::new(self.ty(depth + 1, Pos::Payload))),
            _ => {
                let k = *self.rng.pick(&[0usize, 2, 2, 3]);
                Ty::TupleStruct(self.rng.pick(TYPE_NAMES).to_string(), (0..k).map(|_| self.ty(depth + 1, Pos::Elem)).collect())
            }
        }
    }

    // ---------------------------------------------------------------- values

    pub fn string(&mut self) -> String {
        if self.rng.chance(1, 400) {
            // a long run of one delimiter character (style selection counts consecutive quotes)
            let q = *self.rng.pick(&['"', '\'', '\\', '\n']);
            let n = *self.rng.pick(&[254usize, 255, 256, 257, 300, 513]);
            let mut s: String = std::iter::repeat(q).take(n).collect();
            if self.rng.chance(1, 2) {
                s.push('x');
            }
            return s;
        }
        if self.rng.chance(1, 300) {
            // a long string (thresholds around 1000 characters / 1 KiB / 4 KiB)
            let n = *self.rng.pick(&[255usize, 1000, 1024, 1025, 4097]);
            let unit: Vec<char> = if self.rng.chance(1, 2) { vec!['a'] } else { vec!['é', ' ', 'x', '\n', '"', '日'] };
            return (0..n).map(|i| unit[i % unit.len()]).collect();
        }
        if self.rng.chance(self.cfg.p_random_str, 100) {
            let n = self.rng.below(12);
            (0..n).map(|_| *self.rng.pick(STR_CHARS)).collect()
        } else if self.rng.chance(1, 2) {
            self.rng.pick(STR_POOL).to_string()
        } else {
            self.rng.pick(&["x", "abc", "hello", "v", "", "name"]).to_string()
        }
    }
    pub fn int_in(&mut self, lo: i128, hi: i128) -> i128 {
        let edges = [lo, lo + 1, hi, hi - 1, 0, 1, -1, 42, 127, 128, 255, 256, 65535, 65536, i32::MAX as i128, i32::MIN as i128, i64::MAX as i128, i64::MIN as i128, 1 << 53, (1 << 53) + 1, 1 << 63, (1 << 63) + 1, u64::MAX as i128, 1 << 64, i64::MIN as i128 - 1];
        for _ in 0..8 {
            let c = if self.rng.chance(2, 3) { *self.rng.pick(&edges) } else { (self.rng.next() as i64 >> self.rng.below(64)) as i128 };
            if c >= lo && c <= hi {
                return c;
            }
        }
        lo.max(0).min(hi)
    }
    pub fn dt(&mut self, want: &Ty) -> Dt {
        let fieldwise = |g: &mut Gen<'_>| -> Dt {
            let y = *g.rng.pick(&[0u16, 1, 1979, 2000, 2024, 9999, 1900, 2100]);
            let m = 1 + g.rng.below(12) as u8;
            let leap = (y % 4 == 0) && ((y % 100 != 0) || (y % 400 == 0));
            let maxd = match m {
                2 if leap => 29,
                2 => 28,
                4 | 6 | 9 | 11 => 30,
                _ => 31,
            };
            let d = if g.rng.chance(1, 3) { maxd } else { 1 + g.rng.below(maxd as usize) as u8 };
            let h = *g.rng.pick(&[0u8, 7, 12, 23]);
            let mi = *g.rng.pick(&[0u8, 32, 59]);
            let s = *g.rng.pick(&[0u8, 1, 59, 60]);
            let ns = *g.rng.pick(&[0u32, 0, 500_000_000, 999_999_999, 1, 123_456_789, 100, 999_999_000]);
            let off = match g.rng.below(6) {
                0 | 1 => Off::Z,
                2 => Off::Min(0),
                3 => Off::Min(-7 * 60),
                4 => Off::Min(23 * 60 + 59),
                _ => Off::Min(-(23 * 60 + 59)),
            };
            match g.rng.below(4) {
                0 => Dt { date: Some((y, m, d)), time: Some((h, mi, s, ns)), offset: Some(off) },
                1 => Dt { date: Some((y, m, d)), time: Some((h, mi, s, ns)), offset: None },
                2 => Dt { date: Some((y, m, d)), time: None, offset: None },
                _ => Dt { date: None, time: Some((h, mi, s, ns)), offset: None },
            }
        };
        match want {
            Ty::Date => {
                let mut d = fieldwise(self);
                while d.date.is_none() {
                    d = fieldwise(self);
                }
                Dt { date: d.date, time: None, offset: None }
            }
            Ty::Time => {
                let mut d = fieldwise(self);
                while d.time.is_none() {
                    d = fieldwise(self);
                }
                Dt { date: None, time: d.time, offset: None }
            }
            _ => {
                let r = self.rng.below(20);
                if r < 5 {
                    // through the public standalone parser
                    let s = self.rng.pick(DT_STRINGS);
                    match s.parse::<toml_datetime::Datetime>() {
                        Ok(d) => Dt::from_real(&d),
                        Err(_) => fieldwise(self),
                    }
                } else if r == 5 && self.cfg.p_unsupported > 0 {
                    // out of range / wrong kind, field-wise
                    let mut d = fieldwise(self);
                    match self.rng.below(5) {
                        0 => d.date = d.date.map(|(y, _, dd)| (y, 13, dd)),
                        1 => d.time = d.time.map(|(_, mi, s, ns)| (25, mi, s, ns)),
                        2 => {
                            d.time = None;
                            d.offset = Some(Off::Z);
                            if d.date.is_none() {
                                d.date = Some((1979, 5, 27));
                            }
                        }
                        3 => d.date = d.date.map(|(y, m, _)| (y, m, 0)),
                        _ => {
                            if d.time.is_some() && d.date.is_some() {
                                d.offset = Some(Off::Min(24 * 60 + 1));
                            }
                        }
                    }
                    d
                } else {
                    fieldwise(self)
                }
            }
        }
    }

    pub fn tree(&mut self, depth: u32) -> Tree {
        let leafy = depth >= 4 || self.rng.chance(if depth >= 3 { 85 } else { 60 }, 100);
        if leafy {
            return match self.rng.below(6) {
                0 => Tree::Bool(self.rng.chance(1, 2)),
                1 => Tree::Int(self.int_in(i64::MIN as i128, i64::MAX as i128) as i64),
                2 => Tree::Float(canon_f64(f64::from_bits(*self.rng.pick(F64_SPECIAL)))),
                3 => {
                    let mut d = self.dt(&Ty::Datetime);
                    while !d.in_range() {
                        d = self.dt(&Ty::Datetime);
                    }
                    Tree::Dt(d)
                }
                _ => Tree::Str(self.string()),
            };
        }
        if self.rng.chance(1, 2) {
            let n = self.rng.below(4);
            Tree::Arr((0..n).map(|_| self.tree(depth + 1)).collect())
        } else {
            self.table_tree(depth)
        }
    }
    pub fn table_tree(&mut self, depth: u32) -> Tree {
        let n = self.rng.below(4);
        let mut kvs: Vec<(String, Tree)> = Vec::new();
        for _ in 0..n {
            let used: Vec<String> = kvs.iter().map(|(k, _)| k.clone()).collect();
            let k = self.name(&used);
            let v = if depth < 3 && self.rng.chance(1, 8) {
                // an array mixing tables and non-tables (it has to stay inline wherever it is)
                let mut xs = vec![self.tree(4), self.table_tree(depth + 2)];
                if self.rng.chance(1, 2) {
                    xs.push(self.tree(4));
                }
                if self.rng.chance(1, 2) {
                    xs.reverse();
                }
                Tree::Arr(xs)
            } else {
                self.tree(depth + 1)
            };
            kvs.push((k, v));
        }
        Tree::Tab(kvs)
    }

    pub fn val(&mut self, ty: &Ty) -> Val {
        match ty {
            Ty::Bool => Val::Bool(self.rng.chance(1, 2)),
            Ty::U64 => {
                // beyond i64::MAX only in "unsupported" swarms
                let (lo, hi) = ty.int_range();
                let hi = if self.cfg.p_unsupported > 0 { hi } else { i64::MAX as i128 };
                Val::Int(self.int_in(lo, hi))
            }
            t if t.is_int() => {
                let (lo, hi) = t.int_range();
                Val::Int(self.int_in(lo, hi))
            }
            Ty::F32 => Val::F32(if self.rng.chance(2, 3) { *self.rng.pick(F32_SPECIAL) } else { self.rng.next() as u32 }),
            Ty::F64 => Val::F64(if self.rng.chance(2, 3) { *self.rng.pick(F64_SPECIAL) } else { self.rng.next() }),
            Ty::Char => Val::Char(*self.rng.pick(STR_CHARS)),
            Ty::Str => Val::Str(self.string()),
            Ty::Datetime | Ty::Date | Ty::Time => Val::Dt(self.dt(ty)),
            Ty::Option(t) => {
                if self.rng.chance(2, 5) {
                    Val::None
                } else {
                    Val::Some(Box::new(self.val(t)))
                }
            }
            Ty::Seq(t) => {
                // occasionally a long sequence (thresholds: 10, 16/17, 32/33, 100, 256/257 elements)
                let n = if t.count_nodes() <= 3 && self.rng.chance(1, 60) { *self.rng.pick(&[10usize, 16, 17, 33, 100, 257]) } else { *self.rng.pick(&[0usize, 1, 1, 2, 2, 3, 4]) };
                Val::Seq((0..n).map(|_| self.val(t)).collect())
            }
            Ty::Tuple(ts) | Ty::TupleStruct(_, ts) => Val::Seq(ts.iter().map(|t| self.val(t)).collect()),
            Ty::Map(kt, vt) => {
                let big = vt.count_nodes() <= 3 && matches!(kt, KeyTy::Str | KeyTy::NewtypeStr(_)) && self.rng.chance(1, 80);
                let n = if big { *self.rng.pick(&[16usize, 33, 101, 260]) } else { *self.rng.pick(&[0usize, 1, 2, 2, 3, 4]) };
                let mut kvs: Vec<(Val, Val)> = Vec::new();
                let kt = &kt.despanned();
                for i in 0..n {
                    let k = match kt {
                        KeyTy::SpannedKey(_) => unreachable!("despanned"),
                        KeyTy::Str | KeyTy::NewtypeStr(_) | KeyTy::SpannedStr | KeyTy::NewtypeSpanned(_) if big => Val::Str(format!("k{}", (i * 7919) % 1000)),
                        KeyTy::Str | KeyTy::NewtypeStr(_) | KeyTy::SpannedStr | KeyTy::NewtypeSpanned(_) => {
                            let used: Vec<String> = kvs.iter().filter_map(|(k, _)| if let Val::Str(s) = k { Some(s.clone()) } else { None }).collect();
                            Val::Str(self.name(&used))
                        }
                        KeyTy::UnitVariant(_, vars) => {
                            let i = self.rng.below(vars.len());
                            if kvs.iter().any(|(k, _)| matches!(k, Val::Variant(j, _) if *j == i)) {
                                continue;
                            }
                            Val::Variant(i, Box::new(Val::Unit))
                        }
                        KeyTy::I64 | KeyTy::SpannedI64 => Val::Int(kvs.len() as i128),
                        KeyTy::Bool => {
                            if kvs.len() >= 2 {
                                continue;
                            }
                            Val::Bool(kvs.len() == 1)
                        }
                        KeyTy::Char => Val::Char((b'a' + kvs.len() as u8) as char),
                    };
                    let v = self.val(vt);
                    kvs.push((k, v));
                }
                Val::Map(kvs)
            }
            Ty::Struct(_, fs) => Val::Struct(fs.iter().map(|(_, t)| self.val(t)).collect()),
            Ty::Newtype(_, t) => self.val(t),
            Ty::Enum(_, vars) => {
                let i = self.rng.below(vars.len());
                let p = match &vars[i].1 {
                    VarTy::Unit => Val::Unit,
                    VarTy::Newtype(t) => self.val(t),
                    VarTy::Tuple(ts) => Val::Seq(ts.iter().map(|t| self.val(t)).collect()),
                    VarTy::Struct(fs) => Val::Struct(fs.iter().map(|(_, t)| self.val(t)).collect()),
                };
                Val::Variant(i, Box::new(p))
            }
            Ty::Unit | Ty::UnitStruct(_) => Val::Unit,
            Ty::Any => Val::Any(if self.rng.chance(1, 2) { self.table_tree(1) } else { self.tree(1) }),
            Ty::Spanned(t) => self.val(t),
            _ => unreachable!(),
        }
    }
}

trait CloneBox {
    fn clone_box(&self) -> Self;
}
impl CloneBox for KeyTy {
    fn clone_box(&self) -> Self {
        self.clone()
    }
}

/// Adversarial reorderings of every map node's entries (H5 / R-ORD): the emission order of a
/// `HashMap`-like field is the environment's choice.
pub fn permute_maps(rng: &mut Rng, ty: &Ty, v: &Val, mode: u32) -> Val {
    match (ty, v) {
        (Ty::Map(_, vt), Val::Map(kvs)) => {
            let mut kvs: Vec<(Val, Val)> = kvs.iter().map(|(k, x)| (k.clone(), permute_maps(rng, vt, x, mode))).collect();
            let is_tab = |x: &Val| matches!(x, Val::Struct(_) | Val::Map(_) | Val::Variant(_, _));
            let is_aot = |x: &Val| matches!(x, Val::Seq(xs) if xs.iter().any(|e| matches!(e, Val::Struct(_) | Val::Map(_))));
            match mode % 5 {
                0 => rng.shuffle(&mut kvs),
                1 => kvs.reverse(),
                2 => kvs.sort_by_key(|(_, x)| if is_tab(x) { 0 } else if is_aot(x) { 1 } else { 2 }),
                3 => kvs.sort_by_key(|(_, x)| if is_aot(x) { 0 } else if is_tab(x) { 1 } else { 2 }),
                _ => {
                    // interleave: table, scalar, table, scalar ...
                    let (mut a, mut b): (Vec<_>, Vec<_>) = kvs.drain(..).partition(|(_, x)| is_tab(x) || is_aot(x));
                    while !a.is_empty() || !b.is_empty() {
                        if let Some(x) = a.pop() {
                            kvs.push(x);
                        }
                        if let Some(x) = b.pop() {
                            kvs.push(x);
                        }
                    }
                }
            }
            Val::Map(kvs)
        }
        (Ty::Any, Val::Any(t)) => Val::Any(permute_tree(rng, t, mode)),
        (Ty::Option(t), Val::Some(x)) => Val::Some(Box::new(permute_maps(rng, t, x, mode))),
        (Ty::Seq(t), Val::Seq(xs)) => Val::Seq(xs.iter().map(|x| permute_maps(rng, t, x, mode)).collect()),
        (Ty::Tuple(ts), Val::Seq(xs)) | (Ty::TupleStruct(_, ts), Val::Seq(xs)) => Val::Seq(ts.iter().zip(xs).map(|(t, x)| permute_maps(rng, t, x, mode)).collect()),
        (Ty::Struct(_, fs), Val::Struct(xs)) => Val::Struct(fs.iter().zip(xs).map(|((_, t), x)| permute_maps(rng, t, x, mode)).collect()),
        (Ty::Newtype(_, t), x) | (Ty::Spanned(t), x) => permute_maps(rng, t, x, mode),
        (Ty::Enum(_, vars), Val::Variant(i, p)) => {
            let np = match (&vars[*i].1, &**p) {
                (VarTy::Newtype(t), x) => permute_maps(rng, t, x, mode),
                (VarTy::Tuple(ts), Val::Seq(xs)) => Val::Seq(ts.iter().zip(xs).map(|(t, x)| permute_maps(rng, t, x, mode)).collect()),
                (VarTy::Struct(fs), Val::Struct(xs)) => Val::Struct(fs.iter().zip(xs).map(|((_, t), x)| permute_maps(rng, t, x, mode)).collect()),
                (_, x) => x.clone(),
            };
            Val::Variant(*i, Box::new(np))
        }
        (_, v) => v.clone(),
    }
}

pub fn permute_tree(rng: &mut Rng, t: &Tree, mode: u32) -> Tree {
    match t {
        Tree::Arr(a) => Tree::Arr(a.iter().map(|x| permute_tree(rng, x, mode)).collect()),
        Tree::Tab(kvs) => {
            let mut kvs: Vec<(String, Tree)> = kvs.iter().map(|(k, x)| (k.clone(), permute_tree(rng, x, mode))).collect();
            let is_tab = |x: &Tree| matches!(x, Tree::Tab(_));
            let is_aot = |x: &Tree| matches!(x, Tree::Arr(xs) if xs.iter().any(|e| matches!(e, Tree::Tab(_))));
            match mode % 5 {
                0 => rng.shuffle(&mut kvs),
                1 => kvs.reverse(),
                2 => kvs.sort_by_key(|(_, x)| if is_tab(x) { 0 } else if is_aot(x) { 1 } else { 2 }),
                3 => kvs.sort_by_key(|(_, x)| if is_aot(x) { 0 } else if is_tab(x) { 1 } else { 2 }),
                _ => {
                    let (mut a, mut b): (Vec<_>, Vec<_>) = kvs.drain(..).partition(|(_, x)| is_tab(x) || is_aot(x));
                    while !a.is_empty() || !b.is_empty() {
                        if let Some(x) = a.pop() {
                            kvs.push(x);
                        }
                        if let Some(x) = b.pop() {
                            kvs.push(x);
                        }
                    }
                }
            }
            Tree::Tab(kvs)
        }
        t => t.clone(),
    }
}
