//! The decoding routes the two crates offer (all real code), driven with the reader peer.

use crate::dynpeer::{with_peer, DynVal};
use crate::reader::RCfg;
use crate::seam::Ctx;
use crate::types::{Ty, Val};


pub const R1: &str = "R1:toml::from_str";
pub const R2: &str = "R2:toml_edit::de::from_str";
pub const R3: &str = "R3:toml_edit::de::from_slice";
pub const R4: &str = "R4:from_document(DocumentMut)";
pub const R4I: &str = "R4i:from_document(ImDocument)";
pub const R4J: &str = "R4j:ImDocument::into_deserializer";
pub const R4K: &str = "R4k:DocumentMut::into_deserializer";
pub const R7C: &str = "R7c:toml_edit::Value::into_deserializer";
pub const R4V: &str = "R4v:ImDocument item as toml_edit::Value::into_deserializer";
pub const R5: &str = "R5:toml::Value::try_into";
pub const R6: &str = "R6:toml::Table::try_into";
pub const R7A: &str = "R7a:toml::de::ValueDeserializer";
pub const R7B: &str = "R7b:toml_edit::de::ValueDeserializer";

// Alias routes: further public entry points that are thin forwarders to one of the routes above.
// They run in a seeded subset of scenarios (`Scenario::alias` bit mask) so that the common routes
// keep their share of the budget.
pub const R2S: &str = "R2s:str::parse::<toml_edit::de::Deserializer>";
pub const R2P: &str = "R2p:toml_edit::de::Deserializer::parse(&str)";
pub const R1D: &str = "R1d:toml::de::Deserializer::new";
pub const R5P: &str = "R5p:str::parse::<toml::Value>().try_into";
pub const R6P: &str = "R6p:str::parse::<toml::Table>().try_into";
pub const R5I: &str = "R5i:toml::Value::into_deserializer";
pub const R6I: &str = "R6i:toml::Table::into_deserializer";
pub const ALIAS_ROUTES: &[&str] = &[R2S, R2P, R1D, R5P, R6P, R5I, R6I];

pub fn alias_bit(route: &str) -> Option<u32> {
    ALIAS_ROUTES.iter().position(|r| *r == route).map(|i| 1u32 << i)
}

/// Is this route to be run in this scenario? Base routes: unless the minimiser narrowed the
/// scenario to other routes; alias routes: when selected by the scenario's alias mask (or named
/// explicitly by a narrowed scenario).
pub fn route_on(sc: &crate::common::Scenario, route: &str) -> bool {
    match alias_bit(route) {
        Some(bit) => {
            if sc.only.is_empty() {
                sc.alias & bit != 0
            } else {
                sc.only.iter().any(|o| o == route)
            }
        }
        None => sc.wants(route),
    }
}

/// document routes
pub const DOC_ROUTES: &[&str] = &[R1, R2, R3, R4, R4I, R4J, R4K, R4V, R5, R6];
/// routes that have the source text and therefore spans
pub const TEXT_ROUTES: &[&str] = &[R1, R2, R3, R4I, R4J, R2S, R2P, R1D];
/// document routes including the alias routes
pub const DOC_ROUTES_X: &[&str] = &[R1, R2, R3, R4, R4I, R4J, R4K, R4V, R5, R6, R2S, R2P, R1D, R5P, R6P, R5I, R6I];
pub const ALL_ROUTES: &[&str] = &[R1, R2, R3, R4, R4I, R4J, R4K, R4V, R5, R6, R7A, R7B, R7C, R2S, R2P, R1D, R5P, R6P, R5I, R6I];

pub fn has_text(route: &str) -> bool {
    TEXT_ROUTES.contains(&route)
}

#[derive(Clone)]
pub struct RouteErr {
    pub message: String,
    pub span: Option<(usize, usize)>,
    pub rendered: String,
    /// the error arose before the reader peer was involved (parse error of the text / intermediate conversion)
    pub pre_peer: bool,
    /// the error value itself (for rendering into a failing sink)
    pub obj: std::rc::Rc<dyn std::fmt::Display>,
}
impl std::fmt::Debug for RouteErr {
    fn fmt(&self, f: &mut std::fmt::Formatter<'_>) -> std::fmt::Result {
        write!(f, "RouteErr({:?}, span={:?})", self.message, self.span)
    }
}

fn e_toml(e: toml::de::Error, pre: bool) -> RouteErr {
    RouteErr { message: e.message().to_string(), span: e.span().map(|r| (r.start, r.end)), rendered: e.to_string(), pre_peer: pre, obj: std::rc::Rc::new(e) }
}
fn e_edit(e: toml_edit::de::Error, pre: bool) -> RouteErr {
    RouteErr { message: e.message().to_string(), span: e.span().map(|r| (r.start, r.end)), rendered: e.to_string(), pre_peer: pre, obj: std::rc::Rc::new(e) }
}
fn e_tomlerr(e: toml_edit::TomlError, pre: bool) -> RouteErr {
    RouteErr { message: e.message().to_string(), span: e.span().map(|r| (r.start, r.end)), rendered: e.to_string(), pre_peer: pre, obj: std::rc::Rc::new(e) }
}

/// Run one route with any root adapter type (`DynVal` for the stub peer, `DynReal<T>` for real
/// types). For R7a/R7b `text` must be the text of a single value.
pub fn run_route_g<D: serde::de::DeserializeOwned>(route: &str, text: &str) -> Result<D, RouteErr> {
    match route {
        R1 => toml::from_str::<D>(text).map_err(|e| e_toml(e, false)),
        R2 => toml_edit::de::from_str::<D>(text).map_err(|e| e_edit(e, false)),
        R3 => toml_edit::de::from_slice::<D>(text.as_bytes()).map_err(|e| e_edit(e, false)),
        R4 => {
            let doc = text.parse::<toml_edit::DocumentMut>().map_err(|e| e_tomlerr(e, true))?;
            toml_edit::de::from_document::<D>(doc).map_err(|e| e_edit(e, false))
        }
        R4I => {
            let doc = toml_edit::ImDocument::parse(text.to_string()).map_err(|e| e_tomlerr(e, true))?;
            toml_edit::de::from_document::<D>(doc).map_err(|e| e_edit(e, false))
        }
        R4J => {
            use serde::de::IntoDeserializer;
            let doc = toml_edit::ImDocument::parse(text.to_string()).map_err(|e| e_tomlerr(e, true))?;
            D::deserialize(doc.into_deserializer()).map_err(|e| e_edit(e, false))
        }
        R4K => {
            use serde::de::IntoDeserializer;
            let doc = text.parse::<toml_edit::DocumentMut>().map_err(|e| e_tomlerr(e, true))?;
            D::deserialize(doc.into_deserializer()).map_err(|e| e_edit(e, false))
        }
        R7C => {
            use serde::de::IntoDeserializer;
            let v = text.parse::<toml_edit::Value>().map_err(|e| e_tomlerr(e, true))?;
            D::deserialize(v.into_deserializer()).map_err(|e| e_edit(e, false))
        }
        R4V => {
            // a value taken out of a parsed document keeps its spans but has no source text attached
            use serde::de::IntoDeserializer;
            let doc = toml_edit::ImDocument::parse(text.to_string()).map_err(|e| e_tomlerr(e, true))?;
            let v = doc.as_item().clone().into_value().map_err(|_| RouteErr { message: "HARNESS: root is not a value".into(), span: None, rendered: String::new(), pre_peer: true, obj: std::rc::Rc::new(String::new()) })?;
            D::deserialize(v.into_deserializer()).map_err(|e| e_edit(e, false))
        }
        R2S => {
            let de = text.parse::<toml_edit::de::Deserializer>().map_err(|e| e_edit(e, true))?;
            D::deserialize(de).map_err(|e| e_edit(e, false))
        }
        R2P => {
            let de = toml_edit::de::Deserializer::parse(text).map_err(|e| e_edit(e, true))?;
            D::deserialize(de).map_err(|e| e_edit(e, false))
        }
        R1D => D::deserialize(toml::de::Deserializer::new(text)).map_err(|e| e_toml(e, false)),
        R5P => {
            let v = text.parse::<toml::Value>().map_err(|e| e_toml(e, true))?;
            v.try_into::<D>().map_err(|e| e_toml(e, false))
        }
        R6P => {
            let t = text.parse::<toml::Table>().map_err(|e| e_toml(e, true))?;
            t.try_into::<D>().map_err(|e| e_toml(e, false))
        }
        R5I => {
            use serde::de::IntoDeserializer;
            let v = toml::from_str::<toml::Value>(text).map_err(|e| e_toml(e, true))?;
            D::deserialize(v.into_deserializer()).map_err(|e| e_toml(e, false))
        }
        R6I => {
            use serde::de::IntoDeserializer;
            let t = toml::from_str::<toml::Table>(text).map_err(|e| e_toml(e, true))?;
            D::deserialize(t.into_deserializer()).map_err(|e| e_toml(e, false))
        }
        R5 => {
            let v = toml::from_str::<toml::Value>(text).map_err(|e| e_toml(e, true))?;
            v.try_into::<D>().map_err(|e| e_toml(e, false))
        }
        R6 => {
            let t = toml::from_str::<toml::Table>(text).map_err(|e| e_toml(e, true))?;
            t.try_into::<D>().map_err(|e| e_toml(e, false))
        }
        R7A => D::deserialize(toml::de::ValueDeserializer::new(text)).map_err(|e| e_toml(e, false)),
        R7B => {
            let de = text.parse::<toml_edit::de::ValueDeserializer>().map_err(|e| e_edit(e, true))?;
            D::deserialize(de).map_err(|e| e_edit(e, false))
        }
        other => Err(RouteErr { message: format!("HARNESS: unknown route {other}"), span: None, rendered: String::new(), pre_peer: true, obj: std::rc::Rc::new(String::new()) }),
    }
}

/// Run one route with the stub reader peer.
pub fn run_route(route: &str, text: &str, ty: &Ty, cfg: &RCfg, cx: &Ctx) -> Result<Val, RouteErr> {
    with_peer(ty, cfg, cx, || run_route_g::<DynVal>(route, text)).map(|d| d.0)
}

/// Run one route with a real target type.
pub fn run_route_real<T: serde::de::DeserializeOwned>(route: &str, text: &str, cx: &Ctx) -> Result<T, RouteErr> {
    crate::dynpeer::with_cx(cx, || run_route_g::<crate::dynpeer::DynReal<T>>(route, text)).map(|d| d.0)
}
