//! Type descriptions, dynamic values, the model tree, date-times — all JSON-serialisable so that a
//! scenario is a replay file.

use serde::{Deserialize, Serialize};
use std::cell::RefCell;
use std::collections::HashMap;

thread_local! {
    static STRS: RefCell<HashMap<String, &'static str>> = RefCell::new(HashMap::new());
    static LISTS: RefCell<HashMap<Vec<String>, &'static [&'static str]>> = RefCell::new(HashMap::new());
}

/// serde wants `&'static str` names; interned and leaked (bounded by the number of distinct names).
pub fn intern(s: &str) -> &'static str {
    STRS.with(|m| {
        if let Some(x) = m.borrow().get(s) {
            return *x;
        }
        let l: &'static str = Box::leak(s.to_string().into_boxed_str());
        m.borrow_mut().insert(s.to_string(), l);
        l
    })
}
pub fn intern_list(xs: &[String]) -> &'static [&'static str] {
    LISTS.with(|m| {
        if let Some(x) = m.borrow().get(xs) {
            return *x;
        }
        let v: Vec<&'static str> = xs.iter().map(|s| intern(s)).collect();
        let l: &'static [&'static str] = Box::leak(v.into_boxed_slice());
        m.borrow_mut().insert(xs.to_vec(), l);
        l
    })
}

#[derive(Clone, Debug, PartialEq, Eq, Serialize, Deserialize)]
pub enum KeyTy {
    Str,
    /// unit-variant enum used as key: (enum name, variants)
    UnitVariant(String, Vec<String>),
    /// newtype struct around String
    NewtypeStr(String),
    /// reader only: `Spanned<String>` as the key type
    SpannedStr,
    /// reader only: a newtype struct around `Spanned<String>` as the key type
    NewtypeSpanned(String),
    /// reader only: `Spanned<i64>` as the key type (integer keys are rejected with and without the wrapper)
    SpannedI64,
    /// reader only: `Spanned<K>` for any other key type K (newtype around String, unit-variant enum, char, bool)
    SpannedKey(Box<KeyTy>),
    I64,
    Bool,
    Char,
}

impl KeyTy {
    /// the key type as an ordinary type (what `Spanned<K>` wraps when K is used in key position)
    pub fn as_ty(&self) -> Ty {
        match self {
            KeyTy::Str => Ty::Str,
            KeyTy::UnitVariant(n, vs) => Ty::Enum(n.clone(), vs.iter().map(|v| (v.clone(), VarTy::Unit)).collect()),
            KeyTy::NewtypeStr(n) => Ty::Newtype(n.clone(), Box::new(Ty::Str)),
            KeyTy::SpannedStr => Ty::Spanned(Box::new(Ty::Str)),
            KeyTy::NewtypeSpanned(n) => Ty::Newtype(n.clone(), Box::new(Ty::Spanned(Box::new(Ty::Str)))),
            KeyTy::SpannedI64 => Ty::Spanned(Box::new(Ty::I64)),
            KeyTy::SpannedKey(k) => Ty::Spanned(Box::new(k.as_ty())),
            KeyTy::I64 => Ty::I64,
            KeyTy::Bool => Ty::Bool,
            KeyTy::Char => Ty::Char,
        }
    }
    /// the key type with Spanned wrappers removed
    pub fn despanned(&self) -> KeyTy {
        match self {
            KeyTy::SpannedStr => KeyTy::Str,
            KeyTy::NewtypeSpanned(n) => KeyTy::NewtypeStr(n.clone()),
            KeyTy::SpannedI64 => KeyTy::I64,
            KeyTy::SpannedKey(k) => k.despanned(),
            k => k.clone(),
        }
    }
}

#[derive(Clone, Debug, PartialEq, Eq, Serialize, Deserialize)]
pub enum VarTy {
    Unit,
    Newtype(Box<Ty>),
    Tuple(Vec<Ty>),
    Struct(Vec<(String, Ty)>),
}

#[derive(Clone, Debug, PartialEq, Eq, Serialize, Deserialize)]
pub enum Ty {
    Bool,
    I8,
    I16,
    I32,
    I64,
    U8,
    U16,
    U32,
    U64,
    I128,
    U128,
    F32,
    F64,
    Char,
    Str,
    Datetime,
    Date,
    Time,
    Option(Box<Ty>),
    Seq(Box<Ty>),
    Tuple(Vec<Ty>),
    TupleStruct(String, Vec<Ty>),
    Map(KeyTy, Box<Ty>),
    Struct(String, Vec<(String, Ty)>),
    Newtype(String, Box<Ty>),
    Enum(String, Vec<(String, VarTy)>),
    Unit,
    UnitStruct(String),
    /// the real `toml::Value`
    Any,
    /// reader only: ask for the span of this node (stub visitor for the serde_spanned protocol)
    Spanned(Box<Ty>),
}

impl Ty {
    pub fn is_int(&self) -> bool {
        matches!(self, Ty::I8 | Ty::I16 | Ty::I32 | Ty::I64 | Ty::U8 | Ty::U16 | Ty::U32 | Ty::U64 | Ty::I128 | Ty::U128)
    }
    pub fn int_range(&self) -> (i128, i128) {
        match self {
            Ty::I8 => (i8::MIN as i128, i8::MAX as i128),
            Ty::I16 => (i16::MIN as i128, i16::MAX as i128),
            Ty::I32 => (i32::MIN as i128, i32::MAX as i128),
            Ty::I64 => (i64::MIN as i128, i64::MAX as i128),
            Ty::U8 => (0, u8::MAX as i128),
            Ty::U16 => (0, u16::MAX as i128),
            Ty::U32 => (0, u32::MAX as i128),
            Ty::U64 => (0, u64::MAX as i128),
            Ty::I128 => (i128::MIN, i128::MAX),
            Ty::U128 => (0, i128::MAX),
            _ => unreachable!(),
        }
    }
    pub fn count_nodes(&self) -> usize {
        1 + match self {
            Ty::Option(t) | Ty::Seq(t) | Ty::Map(_, t) | Ty::Newtype(_, t) | Ty::Spanned(t) => t.count_nodes(),
            Ty::Tuple(ts) | Ty::TupleStruct(_, ts) => ts.iter().map(|t| t.count_nodes()).sum(),
            Ty::Struct(_, fs) => fs.iter().map(|(_, t)| t.count_nodes()).sum(),
            Ty::Enum(_, vs) => vs
                .iter()
                .map(|(_, v)| match v {
                    VarTy::Unit => 1,
                    VarTy::Newtype(t) => t.count_nodes(),
                    VarTy::Tuple(ts) => ts.iter().map(|t| t.count_nodes()).sum(),
                    VarTy::Struct(fs) => fs.iter().map(|(_, t)| t.count_nodes()).sum(),
                })
                .sum(),
            _ => 0,
        }
    }
    /// strip Spanned wrappers
    pub fn despanned(&self) -> Ty {
        match self {
            Ty::Spanned(t) => t.despanned(),
            Ty::Option(t) => Ty::Option(Box::new(t.despanned())),
            Ty::Seq(t) => Ty::Seq(Box::new(t.despanned())),
            Ty::Map(k, t) => Ty::Map(k.despanned(), Box::new(t.despanned())),
            Ty::Newtype(n, t) => Ty::Newtype(n.clone(), Box::new(t.despanned())),
            Ty::Tuple(ts) => Ty::Tuple(ts.iter().map(|t| t.despanned()).collect()),
            Ty::TupleStruct(n, ts) => Ty::TupleStruct(n.clone(), ts.iter().map(|t| t.despanned()).collect()),
            Ty::Struct(n, fs) => Ty::Struct(n.clone(), fs.iter().map(|(f, t)| (f.clone(), t.despanned())).collect()),
            Ty::Enum(n, vs) => Ty::Enum(
                n.clone(),
                vs.iter()
                    .map(|(v, vt)| {
                        (
                            v.clone(),
                            match vt {
                                VarTy::Unit => VarTy::Unit,
                                VarTy::Newtype(t) => VarTy::Newtype(Box::new(t.despanned())),
                                VarTy::Tuple(ts) => VarTy::Tuple(ts.iter().map(|t| t.despanned()).collect()),
                                VarTy::Struct(fs) => VarTy::Struct(fs.iter().map(|(f, t)| (f.clone(), t.despanned())).collect()),
                            },
                        )
                    })
                    .collect(),
            ),
            t => t.clone(),
        }
    }
}

#[derive(Clone, Copy, Debug, PartialEq, Eq, Hash, Serialize, Deserialize)]
pub enum Off {
    Z,
    Min(i16),
}

/// Field-wise date-time (lets the generator build out-of-range values too).
#[derive(Clone, Copy, Debug, PartialEq, Eq, Hash, Serialize, Deserialize)]
pub struct Dt {
    pub date: Option<(u16, u8, u8)>,
    pub time: Option<(u8, u8, u8, u32)>,
    pub offset: Option<Off>,
}

impl Dt {
    pub fn to_real(&self) -> toml_datetime::Datetime {
        toml_datetime::Datetime {
            date: self.date.map(|(year, month, day)| toml_datetime::Date { year, month, day }),
            time: self.time.map(|(hour, minute, second, nanosecond)| toml_datetime::Time { hour, minute, second, nanosecond }),
            offset: self.offset.map(|o| match o {
                Off::Z => toml_datetime::Offset::Z,
                Off::Min(minutes) => toml_datetime::Offset::Custom { minutes },
            }),
        }
    }
    pub fn from_real(d: &toml_datetime::Datetime) -> Dt {
        Dt {
            date: d.date.map(|d| (d.year, d.month, d.day)),
            time: d.time.map(|t| (t.hour, t.minute, t.second, t.nanosecond)),
            offset: d.offset.map(|o| match o {
                toml_datetime::Offset::Z => Off::Z,
                toml_datetime::Offset::Custom { minutes } => Off::Min(minutes),
            }),
        }
    }
    /// one of the four TOML kinds
    pub fn kind_ok(&self) -> bool {
        matches!(
            (self.date.is_some(), self.time.is_some(), self.offset.is_some()),
            (true, true, true) | (true, true, false) | (true, false, false) | (false, true, false)
        )
    }
    /// all fields within the ranges TOML / RFC 3339 allow (appendix D)
    pub fn in_range(&self) -> bool {
        if !self.kind_ok() {
            return false;
        }
        if let Some((y, m, d)) = self.date {
            if y > 9999 || !(1..=12).contains(&m) {
                return false;
            }
            let leap = (y % 4 == 0) && ((y % 100 != 0) || (y % 400 == 0));
            let maxd = match m {
                2 if leap => 29,
                2 => 28,
                4 | 6 | 9 | 11 => 30,
                _ => 31,
            };
            if d < 1 || d > maxd {
                return false;
            }
        }
        if let Some((h, mi, s, ns)) = self.time {
            if h > 23 || mi > 59 || s > 60 || ns > 999_999_999 {
                return false;
            }
        }
        if let Some(Off::Min(m)) = self.offset {
            if m.unsigned_abs() > 23 * 60 + 59 {
                return false;
            }
        }
        true
    }
}

mod i128_str {
    use serde::{Deserialize, Deserializer, Serializer};
    pub fn serialize<S: Serializer>(v: &i128, s: S) -> Result<S::Ok, S::Error> {
        s.serialize_str(&v.to_string())
    }
    pub fn deserialize<'de, D: Deserializer<'de>>(d: D) -> Result<i128, D::Error> {
        let s = String::deserialize(d)?;
        s.parse().map_err(serde::de::Error::custom)
    }
}

/// Dynamic value of some `Ty`.
#[derive(Clone, Debug, PartialEq, Eq, Serialize, Deserialize)]
pub enum Val {
    Bool(bool),
    Int(#[serde(with = "i128_str")] i128),
    /// bit patterns, so that NaN payloads and -0.0 are explicit
    F32(u32),
    F64(u64),
    Char(char),
    Str(String),
    Dt(Dt),
    None,
    Some(Box<Val>),
    /// seq, tuple, tuple struct
    Seq(Vec<Val>),
    Map(Vec<(Val, Val)>),
    /// struct: one value per declared field, in declaration order
    Struct(Vec<Val>),
    /// enum: variant index + payload (Unit / value / Seq / Struct)
    Variant(usize, Box<Val>),
    Unit,
    Any(Tree),
    Spanned(usize, usize, Box<Val>),
}

/// The plain ordered tree of the documented serde -> TOML mapping.
#[derive(Clone, Debug, PartialEq, Eq, Hash, Serialize, Deserialize)]
pub enum Tree {
    Bool(bool),
    Int(i64),
    /// f64 bits, every NaN mapped to the canonical positive quiet NaN
    Float(u64),
    Str(String),
    Dt(Dt),
    Arr(Vec<Tree>),
    Tab(Vec<(String, Tree)>),
}

pub fn canon_f64(f: f64) -> u64 {
    if f.is_nan() {
        f64::NAN.to_bits()
    } else {
        f.to_bits()
    }
}

impl Tree {
    pub fn sorted(&self) -> Tree {
        match self {
            Tree::Arr(a) => Tree::Arr(a.iter().map(|t| t.sorted()).collect()),
            Tree::Tab(t) => {
                let mut v: Vec<(String, Tree)> = t.iter().map(|(k, t)| (k.clone(), t.sorted())).collect();
                v.sort_by(|a, b| a.0.cmp(&b.0));
                Tree::Tab(v)
            }
            t => t.clone(),
        }
    }
    pub fn eq_unordered(&self, other: &Tree) -> bool {
        self.sorted() == other.sorted()
    }
    pub fn count(&self) -> usize {
        1 + match self {
            Tree::Arr(a) => a.iter().map(|t| t.count()).sum(),
            Tree::Tab(t) => t.iter().map(|(_, t)| t.count()).sum(),
            _ => 0,
        }
    }
    pub fn from_value(v: &toml::Value) -> Tree {
        match v {
            toml::Value::Boolean(b) => Tree::Bool(*b),
            toml::Value::Integer(i) => Tree::Int(*i),
            toml::Value::Float(f) => Tree::Float(canon_f64(*f)),
            toml::Value::String(s) => Tree::Str(s.clone()),
            toml::Value::Datetime(d) => Tree::Dt(Dt::from_real(d)),
            toml::Value::Array(a) => Tree::Arr(a.iter().map(Tree::from_value).collect()),
            toml::Value::Table(t) => Tree::Tab(t.iter().map(|(k, v)| (k.clone(), Tree::from_value(v))).collect()),
        }
    }
    pub fn from_table(t: &toml::Table) -> Tree {
        Tree::Tab(t.iter().map(|(k, v)| (k.clone(), Tree::from_value(v))).collect())
    }
    pub fn to_value(&self) -> toml::Value {
        match self {
            Tree::Bool(b) => toml::Value::Boolean(*b),
            Tree::Int(i) => toml::Value::Integer(*i),
            Tree::Float(f) => toml::Value::Float(f64::from_bits(*f)),
            Tree::Str(s) => toml::Value::String(s.clone()),
            Tree::Dt(d) => toml::Value::Datetime(d.to_real()),
            Tree::Arr(a) => toml::Value::Array(a.iter().map(|t| t.to_value()).collect()),
            Tree::Tab(t) => {
                let mut m = toml::Table::new();
                for (k, v) in t {
                    m.insert(k.clone(), v.to_value());
                }
                toml::Value::Table(m)
            }
        }
    }
    /// Decode through toml_edit's own tree (independent of toml::Value's serde route).
    pub fn from_item(it: &toml_edit::Item) -> Option<Tree> {
        match it {
            toml_edit::Item::None => None,
            toml_edit::Item::Value(v) => Some(Tree::from_edit_value(v)),
            toml_edit::Item::Table(t) => Some(Tree::Tab(
                t.iter().filter_map(|(k, v)| Tree::from_item(v).map(|t| (k.to_string(), t))).collect(),
            )),
            toml_edit::Item::ArrayOfTables(a) => Some(Tree::Arr(
                a.iter()
                    .map(|t| Tree::Tab(t.iter().filter_map(|(k, v)| Tree::from_item(v).map(|t| (k.to_string(), t))).collect()))
                    .collect(),
            )),
        }
    }
    pub fn from_edit_value(v: &toml_edit::Value) -> Tree {
        match v {
            toml_edit::Value::String(s) => Tree::Str(s.value().clone()),
            toml_edit::Value::Integer(i) => Tree::Int(*i.value()),
            toml_edit::Value::Float(f) => Tree::Float(canon_f64(*f.value())),
            toml_edit::Value::Boolean(b) => Tree::Bool(*b.value()),
            toml_edit::Value::Datetime(d) => Tree::Dt(Dt::from_real(d.value())),
            toml_edit::Value::Array(a) => Tree::Arr(a.iter().map(Tree::from_edit_value).collect()),
            toml_edit::Value::InlineTable(t) => {
                Tree::Tab(t.iter().map(|(k, v)| (k.to_string(), Tree::from_edit_value(v))).collect())
            }
        }
    }
}

impl Val {
    /// remove span wrappers (for comparing a Spanned read with a plain read)
    pub fn despan(&self) -> Val {
        match self {
            Val::Spanned(_, _, v) => v.despan(),
            Val::Some(v) => Val::Some(Box::new(v.despan())),
            Val::Seq(vs) => Val::Seq(vs.iter().map(|v| v.despan()).collect()),
            Val::Struct(vs) => Val::Struct(vs.iter().map(|v| v.despan()).collect()),
            Val::Map(kvs) => Val::Map(kvs.iter().map(|(k, v)| (k.despan(), v.despan())).collect()),
            Val::Variant(i, v) => Val::Variant(*i, Box::new(v.despan())),
            v => v.clone(),
        }
    }
    /// canonical form for equality: NaNs unified, map entries sorted when `unordered`
    pub fn canon(&self, unordered: bool) -> Val {
        match self {
            Val::F32(b) => {
                if f32::from_bits(*b).is_nan() {
                    Val::F32(f32::NAN.to_bits())
                } else {
                    Val::F32(*b)
                }
            }
            Val::F64(b) => Val::F64(canon_f64(f64::from_bits(*b))),
            Val::Spanned(s, e, v) => Val::Spanned(*s, *e, Box::new(v.canon(unordered))),
            Val::Some(v) => Val::Some(Box::new(v.canon(unordered))),
            Val::Seq(vs) => Val::Seq(vs.iter().map(|v| v.canon(unordered)).collect()),
            Val::Struct(vs) => Val::Struct(vs.iter().map(|v| v.canon(unordered)).collect()),
            Val::Map(kvs) => {
                let mut v: Vec<(Val, Val)> = kvs.iter().map(|(k, v)| (k.canon(unordered), v.canon(unordered))).collect();
                if unordered {
                    v.sort_by(|a, b| format!("{:?}", a.0).cmp(&format!("{:?}", b.0)));
                }
                Val::Map(v)
            }
            Val::Variant(i, v) => Val::Variant(*i, Box::new(v.canon(unordered))),
            Val::Any(t) => Val::Any(if unordered { t.sorted() } else { t.clone() }),
            v => v.clone(),
        }
    }
}
