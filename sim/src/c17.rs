//! C17 — serialization is deterministic, canonical and insensitive to map order.
//! What the environment chooses here: the order in which a map's entries reach the serializer
//! (R-ORD, e.g. a `HashMap` field), and every ambient source of nondeterminism (thread identity,
//! fresh `RandomState` keys, heap addresses, what ran before).

use crate::c07::{run_serializer, SerOut};
use crate::common::*;
use crate::gen::*;
use crate::model::*;
use crate::reader::*;
use crate::rng::Rng;
use crate::seam::*;
use crate::types::*;
use crate::writer::*;
use serde::de::DeserializeSeed;
use std::panic::{catch_unwind, AssertUnwindSafe};

pub const TEXT_SERS: &[&str] = &["toml::to_string", "toml::to_string_pretty", "toml_edit::ser::to_string", "toml_edit::ser::to_string_pretty", "toml_edit::ser::to_document"];
pub const NAMES: &[&str] = TEXT_SERS;

pub fn generate(rng: &mut Rng, _tier: &str) -> Scenario {
    if rng.chance(1, 8) {
        return crate::realfam::generate("C17", rng);
    }
    let mut cfg = GenCfg::swarm(rng);
    let workload_c = rng.chance(1, 2);
    if workload_c {
        cfg.map_heavy = true;
        cfg.allow_any = true;
        cfg.p_unsupported = 0;
    }
    let mut g = Gen::new(rng, cfg);
    let ty = if workload_c && g.rng.chance(1, 3) { Ty::Any } else { g.ty(0, Pos::Root) };
    let mut val = g.val(&ty);
    if ty == Ty::Any {
        // a toml::Table at the root
        val = Val::Any(g.table_tree(0));
    }
    let mut sc = Scenario::new("C17", if workload_c { "C" } else { "A" }, ty);
    if workload_c {
        let n = 1 + rng.below(4);
        for i in 0..n {
            let mode = rng.below(5) as u32 + i as u32;
            sc.perms.push(permute_maps(rng, &sc.ty, &val, mode));
        }
    }
    sc.val = Some(val);
    // ambient-nondeterminism probe on a separate thread in a fraction of the runs
    sc.rhseed = rng.below(8) as u64;
    sc
}

fn ser_text(name: &str, ty: &Ty, v: &Val, out: &mut RunOut, verbose: bool) -> Result<Result<String, String>, String> {
    let cx = Ctx::new(Fault::None, verbose);
    let wcfg = WCfg::new(0, 0);
    let w = W { ty, v, cfg: &wcfg };
    let r = catch_unwind(AssertUnwindSafe(|| run_serializer(name, &PVal { v: &w, cx: &cx })));
    out.absorb(&cx);
    match r {
        Err(p) => Err(panic_msg(&p)),
        Ok(Ok(SerOut::Text(t))) => Ok(Ok(t)),
        Ok(Ok(SerOut::Value(_))) => Ok(Err("HARNESS: value output from text serializer".into())),
        Ok(Err(e)) => Ok(Err(e)),
    }
}

fn decode(text: &str) -> Option<Tree> {
    catch_unwind(AssertUnwindSafe(|| toml_edit::ImDocument::parse(text.to_string()).ok().and_then(|d| Tree::from_item(d.as_item())))).ok().flatten()
}

pub fn execute(sc: &Scenario, verbose: bool) -> RunOut {
    let mut out = RunOut::default();
    if sc.workload == "R" {
        crate::realfam::execute("C17", sc, verbose, &mut out);
        return out;
    }
    let ty = &sc.ty;
    let val = sc.val.as_ref().expect("C17 without value");
    let must = must_succeed(ty, val);
    let m = model(ty, val);
    out.stats.inc(if must { "class.must_succeed" } else { "class.outside" });
    out.stats.inc(&format!("workload.{}", sc.workload));
    let mut texts: Vec<Option<String>> = Vec::new();
    for name in TEXT_SERS {
        if !sc.wants(name) {
            texts.push(None);
            continue;
        }
        // clause 1: pure function — same result from freshly rebuilt structures, and on another thread
        let r1 = ser_text(name, ty, val, &mut out, verbose);
        let r2 = ser_text(name, ty, val, &mut out, false);
        if r1 != r2 {
            out.violate("C17/1", format!("C17/nondeterministic/ser={name}"), format!("{name} gave two different results for the same value in one thread\n first:  {r1:?}\n second: {r2:?}"));
        }
        if sc.rhseed == 0 {
            let (t2, v2, n2) = (ty.clone(), val.clone(), name.to_string());
            let r3 = std::thread::spawn(move || {
                let mut o = RunOut::default();
                ser_text(&n2, &t2, &v2, &mut o, false)
            })
            .join();
            out.stats.inc("probe.other_thread");
            match r3 {
                Ok(r3) if r3 == r1 => {}
                Ok(r3) => out.violate("C17/1", format!("C17/nondeterministic-across-threads/ser={name}"), format!("{name} differs on another thread\n main:  {r1:?}\n other: {r3:?}")),
                Err(_) => out.violate("C17/1", format!("C17/panic/ser={name}"), format!("{name} panicked on a spawned thread")),
            }
        }
        let text = match r1 {
            Err(p) => {
                if p.contains("HARNESS") {
                    out.harness_error = Some(p);
                    return out;
                }
                out.violate("C17/1", format!("C17/panic/ser={name}"), format!("{name} panicked: {p}"));
                texts.push(None);
                continue;
            }
            Ok(Err(e)) => {
                if e.contains("HARNESS") {
                    out.harness_error = Some(e);
                    return out;
                }
                out.note(&e);
                texts.push(None);
                continue;
            }
            Ok(Ok(t)) => t,
        };
        out.note(&text);
        if verbose {
            out.log.push(format!("--- {name}:\n{text}"));
        }
        // clause 2: fixed point in one step: to_string(from_str(to_string(v))) == to_string(v)
        let rcfg = RCfg::plain();
        let cx = Ctx::new(Fault::None, false);
        let back = catch_unwind(AssertUnwindSafe(|| PSeed { s: R { ty, cfg: &rcfg }, cx: &cx }.deserialize(toml::de::Deserializer::new(&text)).map_err(|e| e.to_string())));
        out.absorb(&cx);
        let back = match back {
            Ok(Ok(v2)) => Some(v2),
            Ok(Err(e)) => {
                // v was serializable, so from_str(to_string(v)) has to exist for the fixed-point law to hold
                out.violate(
                    "C17/2",
                    format!("C17/not-a-fixed-point/readback-fails/ser={name}"),
                    format!("{name} succeeded but its own output cannot be deserialized into the same type ({e}), so to_string(from_str(to_string(v))) does not exist\n--- text ---\n{text}"),
                );
                None
            }
            Err(p) => {
                out.violate("C17/1", format!("C17/panic/readback/ser={name}"), format!("deserializing {name} output panicked: {}", panic_msg(&p)));
                None
            }
        };
        if let Some(v2) = back {
            out.stats.inc("oracle.fixed_point");
            match ser_text(name, ty, &v2, &mut out, false) {
                Ok(Ok(t2)) => {
                    if t2 != text {
                        out.violate(
                            "C17/2",
                            format!("C17/not-a-fixed-point/ser={name}"),
                            format!("{name}: serialize -> deserialize -> serialize changes the text\n--- first ---\n{text}\n--- second ---\n{t2}"),
                        );
                    }
                }
                Ok(Err(e)) => out.violate("C17/2", format!("C17/not-a-fixed-point/ser={name}"), format!("{name}: re-serializing the value read back fails: {e}\n--- first ---\n{text}")),
                Err(p) => out.violate("C17/1", format!("C17/panic/ser={name}"), format!("{name} panicked on the value read back: {p}")),
            }
        }
        texts.push(Some(text));
    }
    // clause 3: plain and pretty outputs of each crate decode to equal values
    for (a, b) in [(0usize, 1usize), (2, 3), (2, 4)] {
        if let (Some(ta), Some(tb)) = (&texts[a], &texts[b]) {
            out.stats.inc("oracle.plain_vs_pretty");
            let (da, db) = (decode(ta), decode(tb));
            let same = match (&da, &db) {
                (Some(x), Some(y)) => x.eq_unordered(y),
                _ => false,
            };
            if !same {
                out.violate(
                    "C17/3",
                    format!("C17/plain-pretty-differ/{}|{}", TEXT_SERS[a], TEXT_SERS[b]),
                    format!("{} and {} outputs do not decode to equal values\n--- {} ---\n{ta}\n--- {} ---\n{tb}", TEXT_SERS[a], TEXT_SERS[b], TEXT_SERS[a], TEXT_SERS[b]),
                );
            }
        }
    }
    // clause 4: whatever order the map yields its entries in, the text is valid and decodes to v
    for (pi, p) in sc.perms.iter().enumerate() {
        for name in TEXT_SERS {
            if !sc.wants(name) {
                continue;
            }
            out.stats.inc("oracle.reorder");
            match ser_text(name, ty, p, &mut out, verbose) {
                Err(pm) => out.violate("C17/4", format!("C17/panic/ser={name}"), format!("{name} panicked on permutation {pi}: {pm}")),
                Ok(Err(e)) => {
                    if must {
                        out.violate("C17/4", format!("C17/reorder-error/ser={name}"), format!("{name} fails on a reordering of a serializable value: {e}\n order: {p:?}"));
                    }
                }
                Ok(Ok(t)) => {
                    out.note(&t);
                    match (decode(&t), &m) {
                        (None, _) => out.violate("C17/4", format!("C17/reorder-invalid-text/ser={name}"), format!("{name}: output for a reordered map is not valid TOML\n order: {p:?}\n--- text ---\n{t}")),
                        (Some(d), Some(m)) => {
                            if !d.eq_unordered(m) {
                                out.violate(
                                    "C17/4",
                                    format!("C17/reorder-changes-value/ser={name}"),
                                    format!("{name}: output for a reordered map decodes to a different value\n expected {:?}\n got      {:?}\n--- text ---\n{t}", m.sorted(), d.sorted()),
                                );
                            }
                        }
                        _ => {}
                    }
                }
            }
        }
    }
    // clause 5 + (ii): toml::Table built by insertion in each order, printed; parsed and printed twice
    if let (Ty::Any, Val::Any(tree @ Tree::Tab(_))) = (ty, val) {
        if sc.only.is_empty() {
            let mut all = vec![tree.clone()];
            for p in &sc.perms {
                if let Val::Any(t) = p {
                    all.push(t.clone());
                }
            }
            let mut first_text: Option<String> = None;
            for (i, t) in all.iter().enumerate() {
                let r = catch_unwind(AssertUnwindSafe(|| {
                    let mut table = match t.to_value() {
                        toml::Value::Table(t) => t,
                        _ => unreachable!(),
                    };
                    // the same table reached through another edit history: re-insert an existing key
                    // (keeps its place), remove the first key and add it again (moves it to the end
                    // under preserve_order)
                    if i % 2 == 1 {
                        let first = table.iter().next().map(|(k, v)| (k.clone(), v.clone()));
                        if let Some((k, v)) = first {
                            table.insert(k.clone(), v.clone());
                            table.remove(&k);
                            table.insert(k, v);
                        }
                    }
                    let a = toml::to_string(&table).map_err(|e| e.to_string());
                    let b = toml::to_string(&table).map_err(|e| e.to_string());
                    let d = table.to_string();
                    (a, b, d)
                }));
                out.execs += 3;
                let (a, b, d) = match r {
                    Err(p) => {
                        out.violate("C17/5", "C17/panic/table-print".into(), format!("printing a toml::Table panicked: {}", panic_msg(&p)));
                        continue;
                    }
                    Ok(x) => x,
                };
                out.stats.inc("oracle.table_twice");
                if a != b {
                    out.violate("C17/5", "C17/table-printed-twice-differs".into(), format!("toml::to_string(&table) twice differs\n{a:?}\n{b:?}"));
                }
                if let Ok(text) = &a {
                    out.note(text);
                    let _ = d;
                    match decode(text) {
                        None => out.violate("C17/4", "C17/table-invalid-text".into(), format!("toml::Table in insertion order {i} prints invalid TOML\n tree: {t:?}\n--- text ---\n{text}")),
                        Some(dt) => {
                            if !dt.eq_unordered(tree) {
                                out.violate("C17/4", "C17/table-reorder-changes-value".into(), format!("toml::Table in insertion order {i} prints text decoding to a different value\n--- text ---\n{text}"));
                            }
                        }
                    }
                    // default build: toml::Table is sorted, so the text is identical for all insertion orders
                    if !cfg!(feature = "preserve_order") {
                        match &first_text {
                            None => first_text = Some(text.clone()),
                            Some(f) => {
                                if f != text {
                                    out.violate("C17/4", "C17/sorted-table-order-sensitive".into(), format!("sorted toml::Table prints differently depending on insertion order\n--- a ---\n{f}\n--- b ---\n{text}"));
                                }
                            }
                        }
                    }
                    // parse and print twice
                    let pr = catch_unwind(AssertUnwindSafe(|| text.parse::<toml::Table>().ok().map(|t| (t.to_string(), t.to_string(), toml::to_string(&t).ok()))));
                    match pr {
                        Ok(Some((x, y, z))) => {
                            out.stats.inc("oracle.parse_print_twice");
                            if x != y {
                                out.violate("C17/5", "C17/parsed-table-printed-twice-differs".into(), format!("parsing a toml::Table and printing it twice gives different text\n{x}\n{y}"));
                            }
                            // canonical: printing the parsed table reproduces the text it was parsed from
                            if let Some(z) = z {
                                if z != *text {
                                    out.violate("C17/2", "C17/not-a-fixed-point/ser=toml::Table".into(), format!("to_string(parse(to_string(table))) differs\n--- first ---\n{text}\n--- second ---\n{z}"));
                                }
                            }
                        }
                        Ok(None) => out.violate("C17/4", "C17/table-invalid-text".into(), format!("text printed from a toml::Table does not parse back as toml::Table\n{text}")),
                        Err(p) => out.violate("C17/5", "C17/panic/table-parse".into(), format!("panicked: {}", panic_msg(&p))),
                    }
                }
            }
        }
    }
    out
}
