//! DocGen (DESIGN appendix E): draws a tree together with a *layout plan* and renders it to TOML
//! text, recording the byte range of every key token and value token it writes — an expected-span
//! table that does not come from the code under test. Also: reader-type inference for a tree, the
//! toml-test corpus as a second document source, and plan-level shrinking.

use crate::common::*;
use crate::rng::Rng;
use crate::types::*;
use serde::{Deserialize, Serialize};

#[derive(Clone, Debug, PartialEq, Eq, Serialize, Deserialize)]
pub enum TabLayout {
    Header,
    Dotted,
    Inline,
}

#[derive(Clone, Debug, PartialEq, Eq, Serialize, Deserialize)]
pub enum Node {
    /// scalar leaf (value in the tree) — spelling is chosen at render time from the trivia stream
    Scalar(Tree),
    Array(Vec<Node>),
    Table(Vec<(String, Node)>, TabLayout),
    /// array of tables written with [[headers]]
    Aot(Vec<Vec<(String, Node)>>),
}

#[derive(Clone, Debug, PartialEq, Eq, Serialize, Deserialize)]
pub struct DocPlan {
    pub root: Vec<(String, Node)>,
    pub trivia_seed: u64,
    /// layout feature switches (swarm): bit0 comments, bit1 CRLF, bit2 BOM, bit3 no final newline,
    /// bit4 odd whitespace/indentation, bit5 multi-line arrays, bit6 exotic scalar spellings,
    /// bit7 children before parent headers / implicit parents, bit8 quoted keys although bare would do
    pub features: u32,
    /// a run of this many empty lines (line numbers >= 256 / 512 / 1100 with almost no bytes in between) ...
    #[serde(default)]
    pub blank_run: u32,
    /// ... written before this key/value line of the root table
    #[serde(default)]
    pub blank_at: u32,
}

pub const F_COMMENTS: u32 = 1;
pub const F_CRLF: u32 = 2;
pub const F_BOM: u32 = 4;
pub const F_NO_FINAL_NL: u32 = 8;
pub const F_WS: u32 = 16;
pub const F_ML_ARRAYS: u32 = 32;
pub const F_SPELLINGS: u32 = 64;
pub const F_REORDER: u32 = 128;
pub const F_QUOTE_KEYS: u32 = 256;

impl Node {
    pub fn tree(&self) -> Tree {
        match self {
            Node::Scalar(t) => t.clone(),
            Node::Array(xs) => Tree::Arr(xs.iter().map(|n| n.tree()).collect()),
            Node::Table(kvs, _) => Tree::Tab(kvs.iter().map(|(k, n)| (k.clone(), n.tree())).collect()),
            Node::Aot(ts) => Tree::Arr(ts.iter().map(|kvs| Tree::Tab(kvs.iter().map(|(k, n)| (k.clone(), n.tree())).collect())).collect()),
        }
    }
}
impl DocPlan {
    pub fn tree(&self) -> Tree {
        Tree::Tab(self.root.iter().map(|(k, n)| (k.clone(), n.tree())).collect())
    }
}

// ------------------------------------------------------------------------------------------------
// plan generation
// ------------------------------------------------------------------------------------------------

const DOC_KEYS: &[&str] = &["a", "b", "c", "d", "name", "id", "x", "y", "key", "val", "t", "u", "list", "pt", "srv", "n1", "k-2", "k_3", "0", "1", "2"];
const DOC_ODD_KEYS: &[&str] = &[
    "", "a.b", "a b", "\"q\"", "'", "é", "日本", "true", "inf", "1979-05-27", "123", "1.5", "-", "a\nb", "\t", "\\", "#c", "=", "[x]", "🦀", "k é", "''", "\u{7f}", " ",
];
const COMMENT_TEXTS: &[&str] = &["", " c", " é日本 = [", " \"#\" '", "\t tab", " 🦀 x = 1", " [table]", "#", " ünï"];

struct PlanGen<'r> {
    rng: &'r mut Rng,
    odd_keys: u32,
    budget: usize,
    max_depth: u32,
}

impl<'r> PlanGen<'r> {
    fn key(&mut self, used: &[String]) -> String {
        for _ in 0..40 {
            let k = if self.rng.chance(self.odd_keys, 100) { *self.rng.pick(DOC_ODD_KEYS) } else { *self.rng.pick(DOC_KEYS) };
            if !used.iter().any(|u| u == k) {
                return k.to_string();
            }
        }
        format!("k{}", used.len())
    }
    fn scalar(&mut self) -> Tree {
        match self.rng.below(9) {
            0 => Tree::Bool(self.rng.chance(1, 2)),
            1 | 2 => Tree::Int(*self.rng.pick(&[0i64, 1, -1, 42, 255, 256, -128, 65535, 1_000_000, i64::MAX, i64::MIN, 7, 99, -17, 1 << 40])),
            3 => Tree::Float(canon_f64(f64::from_bits(*self.rng.pick(crate::gen::F64_SPECIAL)))),
            4 => Tree::Float(canon_f64(*self.rng.pick(&[0.5f64, 3.25, -2.5, 1e10, 6.02e23, 1e-5, 100.0, 0.1, 2.0]))),
            5 => {
                // in-range date-time of one of the four kinds
                let y = *self.rng.pick(&[1979u16, 2000, 2024, 9999, 1]);
                let date = Some((y, 1 + self.rng.below(12) as u8, 1 + self.rng.below(28) as u8));
                let time = Some((self.rng.below(24) as u8, self.rng.below(60) as u8, *self.rng.pick(&[0u8, 30, 59, 60]), *self.rng.pick(&[0u32, 0, 500_000_000, 123_456_789, 1, 999_999_999])));
                let off = Some(match self.rng.below(4) {
                    0 | 1 => Off::Z,
                    2 => Off::Min(-7 * 60),
                    _ => Off::Min(*self.rng.pick(&[0i16, 60, 330, -1, 23 * 60 + 59, -(23 * 60 + 59)])),
                });
                Tree::Dt(match self.rng.below(4) {
                    0 => Dt { date, time, offset: off },
                    1 => Dt { date, time, offset: None },
                    2 => Dt { date, time: None, offset: None },
                    _ => Dt { date: None, time, offset: None },
                })
            }
            _ => {
                let s = if self.rng.chance(1, 3) {
                    let n = self.rng.below(10);
                    (0..n).map(|_| *self.rng.pick(crate::gen::STR_CHARS)).collect()
                } else {
                    self.rng.pick(crate::gen::STR_POOL).to_string()
                };
                Tree::Str(s)
            }
        }
    }
    /// `ctx`: 0 = body of root/header/aot-element table (headers allowed), 1 = dotted table body, 2 = inline (inside value)
    fn node(&mut self, depth: u32, ctx: u32) -> Node {
        if self.budget == 0 || depth >= self.max_depth || self.rng.chance(55, 100) {
            return Node::Scalar(self.scalar());
        }
        self.budget -= 1;
        if self.rng.chance(1, 25) {
            // the table form of an externally tagged tuple variant: { Variant = { 0 = .., 1 = .. } }
            let n = 1 + self.rng.below(3);
            let inner_ctx = if ctx == 0 { 0 } else { 2 };
            let payload: Vec<(String, Node)> = (0..n).map(|i| (i.to_string(), self.node(depth + 2, inner_ctx))).collect();
            let lay = |c: u32, rng: &mut Rng| if c == 0 { if rng.chance(1, 3) { TabLayout::Dotted } else { TabLayout::Header } } else { TabLayout::Inline };
            let l_in = lay(inner_ctx, self.rng);
            let l_out = lay(inner_ctx, self.rng);
            // a dotted table cannot contain header tables
            let has_sections = payload.iter().any(|(_, x)| matches!(x, Node::Table(_, TabLayout::Header) | Node::Aot(_)));
            let l_in = if has_sections && l_in == TabLayout::Dotted { TabLayout::Header } else { l_in };
            let l_out = if l_in == TabLayout::Header && l_out == TabLayout::Dotted { TabLayout::Header } else { l_out };
            let name = self.rng.pick(&["Tuple", "V", "pt"]).to_string();
            return Node::Table(vec![(name, Node::Table(payload, l_in))], l_out);
        }
        match self.rng.below(10) {
            0 | 1 | 2 => {
                // array of values
                let n = self.rng.below(4);
                Node::Array((0..n).map(|_| self.node(depth + 1, 2)).collect())
            }
            3 | 4 if ctx == 0 => {
                // array of tables with [[headers]]
                let n = 1 + self.rng.below(3);
                Node::Aot((0..n).map(|_| self.entries(depth + 1, 0)).collect())
            }
            5 | 6 | 7 if ctx == 0 => Node::Table(self.entries(depth + 1, 0), TabLayout::Header),
            8 if ctx <= 1 => {
                let kvs = self.entries(depth + 1, 1);
                if kvs.is_empty() {
                    // an empty table cannot be written with dotted keys
                    Node::Table(kvs, TabLayout::Inline)
                } else {
                    Node::Table(kvs, TabLayout::Dotted)
                }
            }
            _ => Node::Table(self.entries(depth + 1, 2), TabLayout::Inline),
        }
    }
    fn entries(&mut self, depth: u32, ctx: u32) -> Vec<(String, Node)> {
        let n = self.rng.below(5);
        // positional keys `0`, `1`, ..: the table form of a tuple variant's payload
        let positional = n >= 1 && depth >= 1 && self.rng.chance(1, 10);
        let mut kvs: Vec<(String, Node)> = Vec::new();
        for i in 0..n {
            let used: Vec<String> = kvs.iter().map(|(k, _)| k.clone()).collect();
            let k = if positional { i.to_string() } else { self.key(&used) };
            let v = self.node(depth, ctx);
            kvs.push((k, v));
        }
        kvs
    }
}

pub fn gen_plan(rng: &mut Rng) -> DocPlan {
    let odd_keys = *rng.pick(&[0u32, 0, 15, 50]);
    let features = if rng.chance(1, 6) { 0 } else { (rng.next() & 0x1ff) as u32 };
    let trivia_seed = rng.next();
    let max_depth = 1 + rng.below(4) as u32;
    let budget = 4 + rng.below(20);
    let mut g = PlanGen { rng, odd_keys, budget, max_depth };
    let mut root = g.entries(0, 0);
    if g.rng.chance(1, 25) {
        // a long document (errors on line >= 10 / >= 100, many keys) with some long lines (column >= 100)
        let n = *g.rng.pick(&[12usize, 40, 110, 300]);
        for i in 0..n {
            let k = format!("big{i}");
            let v = if g.rng.chance(1, 10) {
                Node::Scalar(Tree::Str((0..*g.rng.pick(&[120usize, 300])).map(|j| if j % 7 == 0 { 'é' } else { 'x' }).collect()))
            } else if g.rng.chance(1, 10) {
                Node::Array((0..*g.rng.pick(&[11usize, 40])).map(|j| Node::Scalar(Tree::Int(j as i64))).collect())
            } else {
                Node::Scalar(g.scalar())
            };
            root.insert(g.rng.below(root.len() + 1), (k, v));
        }
    }
    if root.is_empty() && g.rng.chance(9, 10) {
        root.push(("a".into(), Node::Scalar(g.scalar())));
    }
    let (blank_run, blank_at) = if g.rng.chance(1, 40) { (*g.rng.pick(&[300u32, 520, 1100]), g.rng.below(3) as u32) } else { (0, 0) };
    DocPlan { root, trivia_seed, features, blank_run, blank_at }
}

// ------------------------------------------------------------------------------------------------
// rendering
// ------------------------------------------------------------------------------------------------

struct Render {
    out: String,
    t: Rng,
    f: u32,
    spans: Vec<(Vec<PathSeg>, usize, usize, bool)>,
    headers: Vec<(Vec<PathSeg>, usize)>,
    header_ends: Vec<usize>,
    /// index into `headers` of the header whose key/value lines are being written (None: root table)
    cur_hdr: Option<usize>,
    /// (length, root line index) of the run of empty lines
    blank: (u32, u32),
}

fn is_bare(k: &str) -> bool {
    !k.is_empty() && k.chars().all(|c| c.is_ascii_alphanumeric() || c == '_' || c == '-')
}

fn basic_escape(s: &str, out: &mut String, t: &mut Rng, exotic: bool) {
    for c in s.chars() {
        match c {
            '"' => out.push_str("\\\""),
            '\\' => out.push_str("\\\\"),
            '\u{8}' => out.push_str("\\b"),
            '\t' => {
                if exotic && t.chance(1, 2) {
                    out.push('\t')
                } else {
                    out.push_str("\\t")
                }
            }
            '\n' => out.push_str("\\n"),
            '\u{c}' => out.push_str("\\f"),
            '\r' => out.push_str("\\r"),
            c if (c as u32) < 0x20 || c as u32 == 0x7f => out.push_str(&format!("\\u{:04X}", c as u32)),
            c => {
                if exotic && t.chance(1, 8) {
                    if (c as u32) <= 0xffff && t.chance(1, 2) {
                        out.push_str(&format!("\\u{:04x}", c as u32));
                    } else {
                        out.push_str(&format!("\\U{:08X}", c as u32));
                    }
                } else {
                    out.push(c)
                }
            }
        }
    }
}

fn literal_ok(s: &str) -> bool {
    !s.chars().any(|c| c == '\'' || c == '\n' || c == '\r' || ((c as u32) < 0x20 && c != '\t') || c as u32 == 0x7f)
}

impl Render {
    fn on(&self, bit: u32) -> bool {
        self.f & bit != 0
    }
    fn ws(&mut self) {
        if self.on(F_WS) {
            match self.t.below(5) {
                0 => {}
                1 => self.out.push(' '),
                2 => self.out.push('\t'),
                3 => self.out.push_str("  "),
                _ => self.out.push_str(" \t "),
            }
        } else {
            self.out.push(' ');
        }
    }
    fn opt_ws(&mut self) {
        if self.on(F_WS) {
            self.ws()
        }
    }
    fn nl(&mut self) {
        if self.on(F_CRLF) && self.t.chance(2, 3) {
            self.out.push_str("\r\n");
        } else {
            self.out.push('\n');
        }
    }
    fn comment(&mut self) {
        self.out.push('#');
        let c = *self.t.pick(COMMENT_TEXTS);
        self.out.push_str(c);
    }
    /// end of a statement line: optional trailing comment, newline, optional blank/comment lines
    fn eol(&mut self) {
        if self.on(F_COMMENTS) && self.t.chance(1, 4) {
            self.opt_ws();
            if !self.on(F_WS) {
                self.out.push(' ');
            }
            self.comment();
        } else if self.on(F_WS) && self.t.chance(1, 5) {
            self.out.push_str(" \t");
        }
        self.nl();
        self.filler();
    }
    fn filler(&mut self) {
        while self.t.chance(1, 6) {
            if self.on(F_COMMENTS) && self.t.chance(1, 2) {
                self.indent();
                self.comment();
            } else if self.on(F_WS) && self.t.chance(1, 3) {
                self.out.push_str("  ");
            }
            self.nl();
        }
    }
    fn indent(&mut self) {
        if self.on(F_WS) && self.t.chance(1, 3) {
            let s = *self.t.pick(&["  ", "\t", "    ", " "]);
            self.out.push_str(s);
        }
    }
    fn key_token(&mut self, k: &str) -> (usize, usize) {
        let start = self.out.len();
        let force_quote = self.on(F_QUOTE_KEYS) && self.t.chance(1, 4);
        if is_bare(k) && !force_quote {
            self.out.push_str(k);
        } else if literal_ok(k) && self.t.chance(1, 2) {
            self.out.push('\'');
            self.out.push_str(k);
            self.out.push('\'');
        } else {
            self.out.push('"');
            let exotic = self.on(F_SPELLINGS);
            let mut tmp = String::new();
            basic_escape(k, &mut tmp, &mut self.t, exotic);
            self.out.push_str(&tmp);
            self.out.push('"');
        }
        (start, self.out.len())
    }
    /// dotted key path; records the span of the last component as the key of `path`
    fn key_path(&mut self, prefix: &[String], k: &str, path: &[PathSeg]) {
        for p in prefix {
            self.key_token(p);
            self.opt_ws();
            self.out.push('.');
            self.opt_ws();
        }
        let (s, e) = self.key_token(k);
        self.spans.push((path.to_vec(), s, e, true));
    }
    fn int(&mut self, i: i64) {
        let exotic = self.on(F_SPELLINGS);
        if exotic && i >= 0 && self.t.chance(1, 3) {
            let (pre, digits) = match self.t.below(3) {
                0 => ("0x", if self.t.chance(1, 2) { format!("{i:x}") } else { format!("{i:X}") }),
                1 => ("0o", format!("{i:o}")),
                _ => ("0b", format!("{i:b}")),
            };
            self.out.push_str(pre);
            self.digits_with_underscores(&digits);
        } else {
            let digits = i.unsigned_abs().to_string();
            if i < 0 {
                self.out.push('-');
            } else if exotic && self.t.chance(1, 4) {
                self.out.push('+');
            }
            if exotic {
                self.digits_with_underscores(&digits);
            } else {
                self.out.push_str(&digits);
            }
        }
    }
    fn digits_with_underscores(&mut self, d: &str) {
        let cs: Vec<char> = d.chars().collect();
        for (i, c) in cs.iter().enumerate() {
            self.out.push(*c);
            if i + 1 < cs.len() && self.t.chance(1, 5) {
                self.out.push('_');
            }
        }
    }
    fn float(&mut self, bits: u64) {
        let f = f64::from_bits(bits);
        let exotic = self.on(F_SPELLINGS);
        if f.is_nan() {
            let s = *self.t.pick(if exotic { &["nan", "+nan", "-nan"][..] } else { &["nan"][..] });
            self.out.push_str(s);
        } else if f.is_infinite() {
            if f > 0.0 {
                let s = *self.t.pick(if exotic { &["inf", "+inf"][..] } else { &["inf"][..] });
                self.out.push_str(s);
            } else {
                self.out.push_str("-inf");
            }
        } else {
            let mut s = format!("{f:?}");
            if exotic {
                if self.t.chance(1, 4) {
                    s = s.replace('e', "E");
                }
                if f.is_sign_positive() && self.t.chance(1, 5) {
                    s.insert(0, '+');
                }
            }
            self.out.push_str(&s);
        }
    }
    fn datetime(&mut self, d: &Dt) {
        let exotic = self.on(F_SPELLINGS);
        if let Some((y, m, dd)) = d.date {
            self.out.push_str(&format!("{y:04}-{m:02}-{dd:02}"));
        }
        if let Some((h, mi, s, ns)) = d.time {
            if d.date.is_some() {
                let sep = if exotic { *self.t.pick(&['T', 't', ' ']) } else { 'T' };
                self.out.push(sep);
            }
            self.out.push_str(&format!("{h:02}:{mi:02}:{s:02}"));
            if ns != 0 || (exotic && self.t.chance(1, 5)) {
                let full = format!("{ns:09}");
                let mut frac = full.trim_end_matches('0').to_string();
                if frac.is_empty() {
                    frac.push('0');
                }
                if exotic {
                    // extra zero digits (up to 12 in total) do not change the value
                    let extra = self.t.below(4);
                    for _ in 0..extra {
                        if frac.len() < 12 {
                            frac.push('0');
                        }
                    }
                }
                self.out.push('.');
                self.out.push_str(&frac);
            }
        }
        match d.offset {
            Some(Off::Z) => {
                let z = if exotic { *self.t.pick(&['Z', 'z']) } else { 'Z' };
                self.out.push(z);
            }
            Some(Off::Min(m)) => {
                let (sign, a) = if m < 0 { ('-', -m) } else { ('+', m) };
                self.out.push_str(&format!("{sign}{:02}:{:02}", a / 60, a % 60));
            }
            None => {}
        }
    }
    fn string(&mut self, s: &str) {
        let exotic = self.on(F_SPELLINGS);
        let kind = if exotic { self.t.below(4) } else { 0 };
        match kind {
            1 if literal_ok(s) => {
                self.out.push('\'');
                self.out.push_str(s);
                self.out.push('\'');
            }
            2 => {
                // multi-line basic
                self.out.push_str("\"\"\"");
                if self.t.chance(1, 2) {
                    self.out.push('\n'); // trimmed by the parser
                } else if s.starts_with('\n') {
                    // a leading raw newline would be trimmed: keep it by adding the trimmed one first
                    self.out.push('\n');
                }
                let cs: Vec<char> = s.chars().collect();
                let mut run = 0;
                for (i, c) in cs.iter().enumerate() {
                    match c {
                        '"' => {
                            let last = i + 1 == cs.len();
                            if run >= 2 || last || self.t.chance(1, 2) {
                                self.out.push_str("\\\"");
                                run = 0;
                            } else {
                                self.out.push('"');
                                run += 1;
                            }
                            continue;
                        }
                        '\\' => self.out.push_str("\\\\"),
                        '\n' => {
                            if self.t.chance(1, 2) {
                                self.out.push('\n')
                            } else {
                                self.out.push_str("\\n")
                            }
                        }
                        '\r' => self.out.push_str("\\r"),
                        '\t' => self.out.push('\t'),
                        '\u{8}' => self.out.push_str("\\b"),
                        '\u{c}' => self.out.push_str("\\f"),
                        c if (*c as u32) < 0x20 || *c as u32 == 0x7f => self.out.push_str(&format!("\\u{:04X}", *c as u32)),
                        c => {
                            self.out.push(*c);
                            // line-ending backslash: the following whitespace/newlines are trimmed
                            if self.t.chance(1, 12) && i + 1 < cs.len() && !cs[i + 1].is_whitespace() {
                                self.out.push_str("\\\n   \t");
                            }
                        }
                    }
                    run = 0;
                }
                self.out.push_str("\"\"\"");
            }
            3 if !s.contains("''") && !s.ends_with('\'') && !s.chars().any(|c| c == '\r' || ((c as u32) < 0x20 && c != '\t' && c != '\n') || c as u32 == 0x7f) => {
                self.out.push_str("'''");
                if s.starts_with('\n') || self.t.chance(1, 2) {
                    self.out.push('\n');
                }
                self.out.push_str(s);
                self.out.push_str("'''");
            }
            _ => {
                self.out.push('"');
                let mut tmp = String::new();
                basic_escape(s, &mut tmp, &mut self.t, exotic);
                self.out.push_str(&tmp);
                self.out.push('"');
            }
        }
    }
    fn scalar(&mut self, t: &Tree) {
        match t {
            Tree::Bool(b) => self.out.push_str(if *b { "true" } else { "false" }),
            Tree::Int(i) => self.int(*i),
            Tree::Float(f) => self.float(*f),
            Tree::Str(s) => self.string(s),
            Tree::Dt(d) => self.datetime(d),
            _ => unreachable!("HARNESS: non-scalar in Scalar node"),
        }
    }
    /// a value token (scalar, inline array, inline table); records its span
    fn value(&mut self, n: &Node, path: &mut Vec<PathSeg>) {
        let start = self.out.len();
        match n {
            Node::Scalar(t) => self.scalar(t),
            Node::Array(xs) => self.array_items(xs.iter().collect(), path),
            Node::Aot(ts) => {
                // inside a value an array of tables is an array of inline tables
                let nodes: Vec<Node> = ts.iter().map(|kvs| Node::Table(kvs.clone(), TabLayout::Inline)).collect();
                self.array_items(nodes.iter().collect(), path);
            }
            Node::Table(kvs, _) => {
                self.out.push('{');
                let mut first = true;
                let mut lines: Vec<(Vec<String>, String, Node, Vec<PathSeg>)> = Vec::new();
                flatten_inline(kvs, &mut Vec::new(), path, &mut lines);
                for (prefix, k, v, mut p) in lines {
                    if !first {
                        self.opt_ws();
                        self.out.push(',');
                    }
                    first = false;
                    self.ws();
                    self.key_path(&prefix, &k, &p);
                    self.ws();
                    self.out.push('=');
                    self.ws();
                    self.value(&v, &mut p);
                }
                self.ws();
                self.out.push('}');
            }
        }
        self.spans.push((path.clone(), start, self.out.len(), false));
    }
    fn array_items(&mut self, xs: Vec<&Node>, path: &mut Vec<PathSeg>) {
        let ml = self.on(F_ML_ARRAYS) && self.t.chance(1, 2);
        self.out.push('[');
        for (i, x) in xs.iter().enumerate() {
            if ml {
                self.opt_ws();
                if self.on(F_COMMENTS) && self.t.chance(1, 4) {
                    self.comment();
                }
                self.nl();
                self.out.push_str("  ");
            } else {
                self.opt_ws();
            }
            path.push(PathSeg::I(i));
            self.value(x, path);
            path.pop();
            self.opt_ws();
            if i + 1 < xs.len() {
                self.out.push(',');
            } else if ml && self.t.chance(1, 2) {
                self.out.push(',');
            }
        }
        if ml {
            if self.on(F_COMMENTS) && self.t.chance(1, 4) {
                self.ws();
                self.comment();
            }
            self.nl();
        } else {
            self.opt_ws();
        }
        self.out.push(']');
    }
    fn header(&mut self, keys: &[String], aot: bool, path: &[PathSeg]) {
        self.indent();
        self.headers.push((path.to_vec(), self.out.len()));
        self.out.push_str(if aot { "[[" } else { "[" });
        self.opt_ws();
        for (i, k) in keys.iter().enumerate() {
            if i > 0 {
                self.opt_ws();
                self.out.push('.');
                self.opt_ws();
            }
            self.key_token(k);
        }
        self.opt_ws();
        self.out.push_str(if aot { "]]" } else { "]" });
        self.header_ends.push(self.out.len());
        self.cur_hdr = Some(self.header_ends.len() - 1);
        self.eol();
    }
    /// body of a header-able table: first its key/value lines (including dotted sub-tables), then sub-sections
    fn body(&mut self, kvs: &[(String, Node)], hdr: &[String], path: &mut Vec<PathSeg>, in_aot: bool) {
        // key/value lines
        let mut lines: Vec<(Vec<String>, String, Node, Vec<PathSeg>)> = Vec::new();
        let mut sections: Vec<(&String, &Node)> = Vec::new();
        for (k, n) in kvs {
            match n {
                Node::Table(_, TabLayout::Header) | Node::Aot(_) => sections.push((k, n)),
                Node::Table(sub, TabLayout::Dotted) => {
                    path.push(PathSeg::K(k.clone()));
                    flatten_dotted(sub, &mut vec![k.clone()], path, &mut lines, &mut Vec::new());
                    path.pop();
                }
                _ => {
                    let mut p = path.clone();
                    p.push(PathSeg::K(k.clone()));
                    lines.push((Vec::new(), k.clone(), n.clone(), p));
                }
            }
        }
        if self.on(F_REORDER) {
            self.t.shuffle(&mut lines);
        }
        let at_root = hdr.is_empty() && path.is_empty();
        let n_lines = lines.len();
        for (li, (prefix, k, v, mut p)) in lines.into_iter().enumerate() {
            if at_root && self.blank.0 > 0 && li == (self.blank.1 as usize).min(n_lines - 1) {
                for _ in 0..self.blank.0 {
                    self.out.push('\n');
                }
                self.blank.0 = 0;
            }
            self.indent();
            self.key_path(&prefix, &k, &p);
            self.ws();
            self.out.push('=');
            self.ws();
            self.value(&v, &mut p);
            if let Some(i) = self.cur_hdr {
                self.header_ends[i] = self.out.len();
            }
            self.eol();
        }
        if self.on(F_REORDER) && !in_aot {
            self.t.shuffle(&mut sections);
        }
        for (k, n) in sections {
            let mut h: Vec<String> = hdr.to_vec();
            h.push(k.clone());
            path.push(PathSeg::K(k.clone()));
            match n {
                Node::Table(sub, _) => self.section(sub, &h, path, in_aot),
                Node::Aot(ts) => {
                    for (i, sub) in ts.iter().enumerate() {
                        path.push(PathSeg::I(i));
                        self.header(&h, true, path);
                        path.pop();
                        path.push(PathSeg::I(i));
                        self.body(sub, &h, path, true);
                        path.pop();
                    }
                }
                _ => unreachable!(),
            }
            path.pop();
        }
    }
    /// a `[header]` table: header + body; with F_REORDER its sub-sections may come first, and a table
    /// without own key/value lines may stay implicit
    fn section(&mut self, kvs: &[(String, Node)], hdr: &[String], path: &mut Vec<PathSeg>, in_aot: bool) {
        let has_sections = kvs.iter().any(|(_, n)| matches!(n, Node::Table(_, TabLayout::Header) | Node::Aot(_)));
        let only_sections = has_sections && kvs.iter().all(|(_, n)| matches!(n, Node::Table(_, TabLayout::Header) | Node::Aot(_)));
        if self.on(F_REORDER) && only_sections && self.t.chance(1, 2) {
            // implicit parent: never gets a header of its own
            self.body(kvs, hdr, path, in_aot);
            return;
        }
        let has_aot = kvs.iter().any(|(_, n)| matches!(n, Node::Aot(_)));
        // (an explicit [a] after [[a.b]] is class U1: never generated)
        if self.on(F_REORDER) && has_sections && !has_aot && !in_aot && self.t.chance(1, 3) {
            // sub-tables first, super-table afterwards
            let (secs, own): (Vec<_>, Vec<_>) = kvs.iter().cloned().partition(|(_, n)| matches!(n, Node::Table(_, TabLayout::Header) | Node::Aot(_)));
            self.body(&secs, hdr, path, in_aot);
            self.header(hdr, false, path);
            self.body(&own, hdr, path, in_aot);
            return;
        }
        self.header(hdr, false, path);
        self.body(kvs, hdr, path, in_aot);
    }
}

/// expand a dotted table into `prefix.key = value` lines (all inside the current body)
fn flatten_dotted(
    kvs: &[(String, Node)],
    prefix: &mut Vec<String>,
    path: &mut Vec<PathSeg>,
    lines: &mut Vec<(Vec<String>, String, Node, Vec<PathSeg>)>,
    _unused: &mut Vec<()>,
) {
    for (k, n) in kvs {
        match n {
            Node::Table(sub, TabLayout::Dotted) if !sub.is_empty() => {
                prefix.push(k.clone());
                path.push(PathSeg::K(k.clone()));
                flatten_dotted(sub, prefix, path, lines, _unused);
                path.pop();
                prefix.pop();
            }
            _ => {
                let mut p = path.clone();
                p.push(PathSeg::K(k.clone()));
                lines.push((prefix.clone(), k.clone(), n.clone(), p));
            }
        }
    }
}
fn flatten_inline(kvs: &[(String, Node)], prefix: &mut Vec<String>, path: &mut Vec<PathSeg>, lines: &mut Vec<(Vec<String>, String, Node, Vec<PathSeg>)>) {
    for (k, n) in kvs {
        match n {
            Node::Table(sub, TabLayout::Dotted) if !sub.is_empty() => {
                prefix.push(k.clone());
                path.push(PathSeg::K(k.clone()));
                flatten_inline(sub, prefix, path, lines);
                path.pop();
                prefix.pop();
            }
            _ => {
                let mut p = path.clone();
                p.push(PathSeg::K(k.clone()));
                lines.push((prefix.clone(), k.clone(), n.clone(), p));
            }
        }
    }
}

pub fn render(plan: &DocPlan) -> DocSpec {
    let mut r = Render { out: String::new(), t: Rng::new(plan.trivia_seed), f: plan.features, spans: Vec::new(), headers: Vec::new(), header_ends: Vec::new(), cur_hdr: None, blank: (plan.blank_run, plan.blank_at) };
    if r.on(F_BOM) {
        r.out.push('\u{feff}');
    }
    r.filler();
    let mut path = Vec::new();
    r.body(&plan.root, &[], &mut path, false);
    if r.on(F_NO_FINAL_NL) {
        while r.out.ends_with('\n') || r.out.ends_with('\r') {
            r.out.pop();
        }
    }
    DocSpec { text: r.out, tree: Some(plan.tree()), spans: r.spans, source: "docgen".into(), plan: Some(plan.clone()), headers: r.headers, header_ends: r.header_ends }
}

pub fn gen_doc(rng: &mut Rng) -> (DocSpec, Tree) {
    if rng.chance(1, 8) {
        let docs = corpus();
        let (name, text) = &docs[rng.below(docs.len())];
        let tree = toml_edit::ImDocument::parse(text.clone()).ok().and_then(|d| Tree::from_item(d.as_item())).unwrap_or(Tree::Tab(vec![]));
        return (DocSpec { text: text.clone(), tree: None, spans: vec![], source: format!("toml-test:{name}"), plan: None, headers: vec![], header_ends: vec![] }, tree);
    }
    let plan = gen_plan(rng);
    let doc = render(&plan);
    let tree = plan.tree();
    (doc, tree)
}

/// the valid documents of toml-test-data for TOML 1.0.0
pub fn corpus() -> &'static Vec<(String, String)> {
    use std::sync::OnceLock;
    static C: OnceLock<Vec<(String, String)>> = OnceLock::new();
    C.get_or_init(|| {
        let wanted: std::collections::HashSet<&std::path::Path> = toml_test_data::version("1.0.0").collect();
        let mut v: Vec<(String, String)> = toml_test_data::valid()
            .filter(|t| wanted.contains(t.name))
            .filter_map(|t| std::str::from_utf8(t.fixture).ok().map(|s| (t.name.display().to_string(), s.to_string())))
            .collect();
        v.sort();
        v
    })
}

// ------------------------------------------------------------------------------------------------
// reader-type inference
// ------------------------------------------------------------------------------------------------

pub struct InferCfg {
    /// out of 100: deliberately mismatching leaf / shape
    pub mismatch: u32,
    /// out of 100: wrap a node in Spanned
    pub spanned: u32,
    /// out of 100: use `Any` for a subtree
    pub any: u32,
}

pub fn infer_type(rng: &mut Rng, tree: &Tree, allow_mismatch: bool) -> Ty {
    let cfg = InferCfg { mismatch: if allow_mismatch && rng.chance(1, 4) { 8 } else { 0 }, spanned: 0, any: *rng.pick(&[0, 5, 20]) };
    infer(rng, tree, &cfg, 0, true)
}

pub fn infer(rng: &mut Rng, tree: &Tree, cfg: &InferCfg, depth: u32, root: bool) -> Ty {
    let t = infer_inner(rng, tree, cfg, depth, root);
    if cfg.spanned > 0 && rng.chance(cfg.spanned, 100) {
        return Ty::Spanned(Box::new(t));
    }
    if !root && depth > 0 && rng.chance(1, 25) {
        return Ty::Newtype("Wrap".into(), Box::new(t));
    }
    t
}

fn infer_inner(rng: &mut Rng, tree: &Tree, cfg: &InferCfg, depth: u32, root: bool) -> Ty {
    if !root && cfg.any > 0 && rng.chance(cfg.any, 100) {
        return Ty::Any;
    }
    if cfg.mismatch > 0 && rng.chance(cfg.mismatch, 100) {
        return rng.pick(&[Ty::Bool, Ty::I64, Ty::Str, Ty::F64, Ty::Seq(Box::new(Ty::I64)), Ty::Struct("Mis".into(), vec![("zz".into(), Ty::I64)]), Ty::U8, Ty::Datetime, Ty::Char, Ty::Unit]).clone();
    }
    match tree {
        Tree::Bool(_) => Ty::Bool,
        Tree::Int(i) => {
            let fits = |t: &Ty| {
                let (lo, hi) = t.int_range();
                (*i as i128) >= lo && (*i as i128) <= hi
            };
            let cands = [Ty::I64, Ty::I64, Ty::I8, Ty::I16, Ty::I32, Ty::U8, Ty::U16, Ty::U32, Ty::U64, Ty::F64];
            for _ in 0..6 {
                let c = rng.pick(&cands).clone();
                if c == Ty::F64 || fits(&c) || cfg.mismatch > 0 {
                    return c;
                }
            }
            Ty::I64
        }
        Tree::Float(_) => {
            if rng.chance(1, 5) {
                Ty::F32
            } else {
                Ty::F64
            }
        }
        Tree::Str(s) => {
            if s.chars().count() == 1 && rng.chance(1, 3) {
                Ty::Char
            } else if rng.chance(1, 8) && !crate::seam::is_private_key(s) {
                // unit variant written as a string
                let mut vars = vec![(s.clone(), VarTy::Unit)];
                if rng.chance(1, 2) {
                    vars.insert(0, ("Other".into(), VarTy::Newtype(Box::new(Ty::I64))));
                }
                Ty::Enum("E".into(), dedup_vars(vars))
            } else {
                Ty::Str
            }
        }
        Tree::Dt(d) => match (d.date.is_some(), d.time.is_some(), d.offset.is_some()) {
            (true, false, false) if rng.chance(1, 2) => Ty::Date,
            (false, true, false) if rng.chance(1, 2) => Ty::Time,
            _ => Ty::Datetime,
        },
        Tree::Arr(xs) => {
            let tys: Vec<Ty> = xs.iter().map(|x| infer(rng, x, &InferCfg { mismatch: cfg.mismatch, spanned: cfg.spanned, any: 0 }, depth + 1, false)).collect();
            if xs.is_empty() {
                return Ty::Seq(Box::new(rng.pick(&[Ty::I64, Ty::Str, Ty::Any]).clone()));
            }
            // homogeneous? then a Vec; else a tuple (or Vec<Any>)
            if let Some(u) = unify_all(&tys) {
                if rng.chance(3, 4) {
                    return Ty::Seq(Box::new(u));
                }
            }
            match rng.below(3) {
                0 => Ty::Seq(Box::new(Ty::Any)),
                1 if tys.len() >= 2 => Ty::TupleStruct("Tup".into(), tys),
                _ => Ty::Tuple(tys),
            }
        }
        Tree::Tab(kvs) => {
            // single-key table as an externally tagged enum
            let positional_payload = kvs.len() == 1 && matches!(&kvs[0].1, Tree::Tab(sub) if !sub.is_empty() && sub.iter().enumerate().all(|(i, (k, _))| *k == i.to_string()));
            if kvs.len() == 1 && !root && (rng.chance(1, 4) || (positional_payload && rng.chance(1, 2))) && !crate::seam::is_private_key(&kvs[0].0) {
                let (k, x) = &kvs[0];
                let vt = match x {
                    Tree::Arr(xs) if xs.len() >= 2 && rng.chance(1, 2) => VarTy::Tuple(xs.iter().map(|e| infer(rng, e, cfg, depth + 1, false)).collect()),
                    // a tuple variant read from a *table* (positional keys `0`, `1`, ... — or a mismatch)
                    Tree::Tab(sub) if !sub.is_empty() && (rng.chance(1, 5) || (sub.iter().enumerate().all(|(i, (k, _))| *k == i.to_string()) && rng.chance(2, 3))) => VarTy::Tuple(sub.iter().map(|(_, e)| infer(rng, e, cfg, depth + 1, false)).collect()),
                    Tree::Tab(sub) if rng.chance(1, 2) => VarTy::Struct(sub.iter().map(|(f, e)| (f.clone(), infer(rng, e, cfg, depth + 1, false))).collect()),
                    other => VarTy::Newtype(Box::new(infer(rng, other, cfg, depth + 1, false))),
                };
                let mut vars = vec![(k.clone(), vt)];
                if rng.chance(1, 2) {
                    vars.push(("Zz".into(), VarTy::Unit));
                }
                return Ty::Enum("E".into(), dedup_vars(vars));
            }
            // map when values unify
            if !kvs.is_empty() && rng.chance(1, 4) {
                let tys: Vec<Ty> = kvs.iter().map(|(_, x)| infer(rng, x, &InferCfg { mismatch: cfg.mismatch, spanned: 0, any: 0 }, depth + 1, false)).collect();
                if let Some(u) = unify_all(&tys) {
                    let numeric = kvs.iter().all(|(k, _)| k.parse::<i64>().is_ok());
                    let kt = if numeric && rng.chance(1, 2) {
                        // integer-typed keys: rejected with and without the Spanned wrapper alike
                        if cfg.spanned > 0 { KeyTy::SpannedI64 } else { KeyTy::I64 }
                    } else if cfg.spanned > 0 && rng.chance(1, 2) {
                        match rng.below(6) {
                            0 | 1 => KeyTy::NewtypeSpanned("Located".into()),
                            // Spanned around a key type other than String
                            2 => KeyTy::SpannedKey(Box::new(KeyTy::NewtypeStr("KeyName".into()))),
                            3 if kvs.len() <= 6 => KeyTy::SpannedKey(Box::new(KeyTy::UnitVariant("KeyE".into(), kvs.iter().map(|(k, _)| k.clone()).collect()))),
                            _ => KeyTy::SpannedStr,
                        }
                    } else if rng.chance(1, 8) {
                        KeyTy::NewtypeStr("KeyName".into())
                    } else if kvs.len() <= 6 && rng.chance(1, 10) {
                        KeyTy::UnitVariant("KeyE".into(), kvs.iter().map(|(k, _)| k.clone()).collect())
                    } else {
                        KeyTy::Str
                    };
                    return Ty::Map(kt, Box::new(u));
                }
            }
            if kvs.is_empty() && rng.chance(1, 2) {
                return Ty::Map(KeyTy::Str, Box::new(Ty::I64));
            }
            let mut fs: Vec<(String, Ty)> = Vec::new();
            for (k, x) in kvs {
                if crate::seam::is_private_key(k) {
                    continue;
                }
                if rng.chance(1, 10) {
                    continue; // unknown key for the reader: ignored
                }
                let mut t = infer(rng, x, cfg, depth + 1, false);
                if rng.chance(1, 6) {
                    t = Ty::Option(Box::new(t));
                }
                fs.push((k.clone(), t));
            }
            if rng.chance(1, 5) {
                let extra = "zz_missing".to_string();
                if !fs.iter().any(|(f, _)| *f == extra) {
                    fs.push((extra, Ty::Option(Box::new(Ty::I64))));
                }
            }
            if cfg.mismatch > 0 && rng.chance(cfg.mismatch, 100) {
                fs.push(("zz_required".into(), Ty::I64));
            }
            Ty::Struct("S".into(), fs)
        }
    }
}

fn dedup_vars(mut v: Vec<(String, VarTy)>) -> Vec<(String, VarTy)> {
    let mut seen = std::collections::HashSet::new();
    v.retain(|(n, _)| seen.insert(n.clone()));
    v
}

fn unify_all(tys: &[Ty]) -> Option<Ty> {
    let first = tys.first()?;
    if tys.iter().all(|t| t == first) {
        Some(first.clone())
    } else if tys.iter().all(|t| t.is_int()) {
        Some(Ty::I64)
    } else {
        None
    }
}

// ------------------------------------------------------------------------------------------------
// shrinking (plan level)
// ------------------------------------------------------------------------------------------------

fn node_shrinks(n: &Node) -> Vec<Node> {
    let mut out = Vec::new();
    match n {
        Node::Scalar(t) => {
            let simple = Tree::Int(0);
            if *t != simple {
                out.push(Node::Scalar(simple));
            }
            if let Tree::Str(s) = t {
                if !s.is_empty() {
                    out.push(Node::Scalar(Tree::Str(String::new())));
                    let cs: Vec<char> = s.chars().collect();
                    if cs.len() > 1 {
                        out.push(Node::Scalar(Tree::Str(cs[..cs.len() / 2].iter().collect())));
                        out.push(Node::Scalar(Tree::Str(cs[cs.len() / 2..].iter().collect())));
                    }
                }
            }
        }
        Node::Array(xs) if xs.len() > 12 => {
            out.push(Node::Scalar(Tree::Int(0)));
            out.push(Node::Array(xs[..xs.len() / 2].to_vec()));
            out.push(Node::Array(xs[xs.len() / 2..].to_vec()));
        }
        Node::Array(xs) => {
            out.push(Node::Scalar(Tree::Int(0)));
            for i in 0..xs.len() {
                let mut c = xs.clone();
                c.remove(i);
                out.push(Node::Array(c));
            }
            for i in 0..xs.len() {
                for s in node_shrinks(&xs[i]) {
                    let mut c = xs.clone();
                    c[i] = s;
                    out.push(Node::Array(c));
                }
            }
        }
        Node::Table(kvs, l) => {
            out.push(Node::Scalar(Tree::Int(0)));
            if *l != TabLayout::Inline {
                out.push(Node::Table(kvs.clone(), TabLayout::Inline));
            }
            for e in entries_shrinks(kvs) {
                if e.is_empty() && *l == TabLayout::Dotted {
                    continue;
                }
                out.push(Node::Table(e, l.clone()));
            }
        }
        Node::Aot(ts) => {
            out.push(Node::Scalar(Tree::Int(0)));
            if ts.len() > 1 {
                for i in 0..ts.len() {
                    let mut c = ts.clone();
                    c.remove(i);
                    out.push(Node::Aot(c));
                }
            }
            for i in 0..ts.len() {
                for e in entries_shrinks(&ts[i]) {
                    let mut c = ts.clone();
                    c[i] = e;
                    out.push(Node::Aot(c));
                }
            }
        }
    }
    out
}

fn entries_shrinks(kvs: &[(String, Node)]) -> Vec<Vec<(String, Node)>> {
    let mut out = Vec::new();
    if kvs.len() > 12 {
        // long bodies: halves and ends only
        out.push(kvs[..kvs.len() / 2].to_vec());
        out.push(kvs[kvs.len() / 2..].to_vec());
        out.push(kvs[..kvs.len() - 1].to_vec());
        out.push(kvs[1..].to_vec());
        return out;
    }
    for i in 0..kvs.len() {
        let mut c = kvs.to_vec();
        c.remove(i);
        out.push(c);
    }
    for i in 0..kvs.len() {
        for s in node_shrinks(&kvs[i].1) {
            let mut c = kvs.to_vec();
            c[i].1 = s;
            out.push(c);
        }
        if !(kvs[i].0.len() == 1 && kvs[i].0.chars().all(|c| c.is_ascii_lowercase())) {
            for cand in ["a", "b", "c", "d"] {
                if !kvs.iter().any(|(k, _)| k == cand) {
                    let mut c = kvs.to_vec();
                    c[i].0 = cand.to_string();
                    out.push(c);
                    break;
                }
            }
        }
    }
    out
}

/// Project a reader type onto a shrunk tree so that it keeps "fitting" as far as possible.
pub fn shrink_doc(sc: &Scenario) -> Vec<Scenario> {
    let doc = match &sc.doc {
        Some(d) => d,
        None => return Vec::new(),
    };
    let plan = match &doc.plan {
        Some(p) => p,
        None => return Vec::new(),
    };
    let mut plans: Vec<DocPlan> = Vec::new();
    // drop layout features
    if plan.features != 0 {
        let mut p = plan.clone();
        p.features = 0;
        plans.push(p);
        for b in 0..9 {
            if plan.features & (1 << b) != 0 && plan.features != (1 << b) {
                let mut p = plan.clone();
                p.features &= !(1 << b);
                plans.push(p);
            }
        }
    }
    for e in entries_shrinks(&plan.root) {
        let mut p = plan.clone();
        p.root = e;
        plans.push(p);
    }
    plans
        .into_iter()
        .map(|p| {
            let mut c = sc.clone();
            c.doc = Some(render(&p));
            c
        })
        .collect()
}
