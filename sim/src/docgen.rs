//! DocGen (appendix E) — placeholder until workload B lands.
use crate::common::*;
pub fn shrink_doc(_sc: &Scenario) -> Vec<Scenario> {
    Vec::new()
}
