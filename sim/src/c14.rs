//! C14 — spans point at exactly the source text of each item.
//! Simulated party: the reader peer's choice of *where* to ask for a span (H7: any value, key,
//! table, array, option, newtype, enum payload, root — singly, in subsets, everywhere).

use crate::common::*;
use crate::docgen::*;
use crate::reader::*;
use crate::rng::Rng;
use crate::routes::*;
use crate::seam::*;
use crate::types::*;
use std::panic::{catch_unwind, AssertUnwindSafe};

pub const NAMES: &[&str] = &[R1, R2, R3, R4I, R4J, R4, R4K, R2S, R2P, R1D];
const SPAN_ROUTES: &[&str] = &[R1, R2, R3, R4I, R4J, R2S, R2P, R1D];

/// Real `toml::Spanned` in std's hashed and ordered collections: wrapping must not change which
/// elements a set keeps or which keys a map finds (Eq / Ord / Hash / Borrow of `Spanned` look at the
/// value only).
#[derive(serde::Deserialize, Debug)]
struct HashedSpanned {
    tags: std::collections::HashSet<toml::Spanned<String>>,
    ordered: std::collections::BTreeSet<toml::Spanned<String>>,
    m: std::collections::HashMap<toml::Spanned<String>, i64>,
}
#[derive(serde::Deserialize, Debug)]
struct HashedPlain {
    tags: std::collections::HashSet<String>,
    ordered: std::collections::BTreeSet<String>,
    m: std::collections::HashMap<String, i64>,
}

fn hashed_collections(sc: &Scenario, out: &mut RunOut) {
    let text = &sc.doc.as_ref().unwrap().text;
    out.note(text);
    let a = catch_unwind(AssertUnwindSafe(|| toml::from_str::<HashedSpanned>(text)));
    let b = catch_unwind(AssertUnwindSafe(|| toml::from_str::<HashedPlain>(text)));
    out.execs += 2;
    out.stats.inc("oracle.spanned_in_hashed_collections");
    match (a, b) {
        (Ok(Ok(a)), Ok(Ok(b))) => {
            let mut problems = Vec::new();
            if a.tags.len() != b.tags.len() {
                problems.push(format!("HashSet<Spanned<String>> keeps {} elements, HashSet<String> keeps {}", a.tags.len(), b.tags.len()));
            }
            if a.ordered.len() != b.ordered.len() {
                problems.push(format!("BTreeSet<Spanned<String>> keeps {} elements, BTreeSet<String> keeps {}", a.ordered.len(), b.ordered.len()));
            }
            if a.m.len() != b.m.len() {
                problems.push(format!("HashMap<Spanned<String>, _> has {} entries, HashMap<String, _> has {}", a.m.len(), b.m.len()));
            }
            for (k, v) in &b.m {
                if a.m.get(k.as_str()) != Some(v) {
                    problems.push(format!("HashMap<Spanned<String>, _>::get({k:?}) = {:?}, the plain map has {v}", a.m.get(k.as_str())));
                    break;
                }
            }
            for t in &b.tags {
                if !a.tags.contains(t.as_str()) {
                    problems.push(format!("HashSet<Spanned<String>>::contains({t:?}) is false"));
                    break;
                }
            }
            if !problems.is_empty() {
                out.violate("C14/5", "C14/spanned-changes-value/collections".into(), format!("wrapping in Spanned changes what a std collection holds: {}\n--- text ---\n{text}", problems.join("; ")));
            }
        }
        (Ok(Err(_)), Ok(Err(_))) => {}
        (Ok(x), Ok(y)) => out.violate("C14/5", "C14/spanned-changes-verdict/collections".into(), format!("with Spanned: {:?}; without: {:?}\n--- text ---\n{text}", x.map(|_| "Ok"), y.map(|_| "Ok"))),
        _ => out.violate("C14/5", "C14/panic/collections".into(), format!("decoding panicked\n--- text ---\n{text}")),
    }
}

pub fn generate(rng: &mut Rng, _tier: &str) -> Scenario {
    if rng.chance(1, 40) {
        // strings with duplicates in arrays, and a table, for real Spanned elements / keys in std collections
        let pool = ["a", "b", "serde", "é", "k 2", "", "a"];
        let n = 1 + rng.below(7);
        let items: Vec<String> = (0..n).map(|_| format!("{:?}", rng.pick(&pool))).collect();
        let mut keys: Vec<&str> = Vec::new();
        for _ in 0..rng.below(5) {
            let k = *rng.pick(&pool);
            if !keys.contains(&k) {
                keys.push(k);
            }
        }
        let sep = if rng.chance(1, 2) { ",\n  " } else { ", " };
        let body: Vec<String> = keys.iter().enumerate().map(|(i, k)| format!("{k:?} = {i}")).collect();
        let text = format!("tags = [{}]\nordered = [ {} ]\n[m]\n{}\n", items.join(sep), items.join(" , "), body.join("\n"));
        let mut sc = Scenario::new("C14", "H", Ty::Unit);
        sc.doc = Some(DocSpec { text, tree: None, spans: vec![], source: "collections".into(), plan: None, headers: vec![], header_ends: vec![] });
        return sc;
    }
    let (doc, tree) = gen_doc(rng);
    let spanned = *rng.pick(&[100u32, 100, 60, 25, 10]);
    let cfg = InferCfg { mismatch: if rng.chance(1, 8) { 6 } else { 0 }, spanned, any: *rng.pick(&[0, 0, 10]) };
    let ty = infer(rng, &tree, &cfg, 0, true);
    let mut sc = Scenario::new("C14", "B", ty);
    sc.doc = Some(doc);
    sc
}

// ------------------------------------------------------------------------------------------------
// navigation in the library's own tree
// ------------------------------------------------------------------------------------------------

#[derive(Clone, Copy)]
pub enum NodeRef<'a> {
    Item(&'a toml_edit::Item),
    Value(&'a toml_edit::Value),
    Table(&'a toml_edit::Table),
}

impl<'a> NodeRef<'a> {
    pub fn span(&self) -> Option<std::ops::Range<usize>> {
        match self {
            NodeRef::Item(i) => i.span(),
            NodeRef::Value(v) => v.span(),
            NodeRef::Table(t) => t.span(),
        }
    }
    pub fn is_tablelike_without_span(&self) -> bool {
        self.span().is_none()
    }
    fn child(&self, seg: &PathSeg) -> Option<NodeRef<'a>> {
        match (*self, seg) {
            (NodeRef::Item(toml_edit::Item::Table(t)), PathSeg::K(k)) | (NodeRef::Table(t), PathSeg::K(k)) => t.get(k).map(NodeRef::Item),
            (NodeRef::Item(toml_edit::Item::Value(toml_edit::Value::InlineTable(t))), PathSeg::K(k)) | (NodeRef::Value(toml_edit::Value::InlineTable(t)), PathSeg::K(k)) => {
                t.get(k).map(NodeRef::Value)
            }
            (NodeRef::Item(toml_edit::Item::Value(toml_edit::Value::Array(a))), PathSeg::I(i)) | (NodeRef::Value(toml_edit::Value::Array(a)), PathSeg::I(i)) => a.get(*i).map(NodeRef::Value),
            (NodeRef::Item(toml_edit::Item::ArrayOfTables(a)), PathSeg::I(i)) => a.get(*i).map(NodeRef::Table),
            // the table form of a tuple variant's payload: positional keys
            (NodeRef::Item(toml_edit::Item::Table(t)), PathSeg::I(i)) | (NodeRef::Table(t), PathSeg::I(i)) => t.get(&i.to_string()).map(NodeRef::Item),
            (NodeRef::Item(toml_edit::Item::Value(toml_edit::Value::InlineTable(t))), PathSeg::I(i)) | (NodeRef::Value(toml_edit::Value::InlineTable(t)), PathSeg::I(i)) => t.get(&i.to_string()).map(NodeRef::Value),
            _ => None,
        }
    }
    pub fn key_span(&self, k: &str) -> Option<Option<std::ops::Range<usize>>> {
        match *self {
            NodeRef::Item(toml_edit::Item::Table(t)) | NodeRef::Table(t) => t.key(k).map(|k| k.span()),
            NodeRef::Item(toml_edit::Item::Value(toml_edit::Value::InlineTable(t))) | NodeRef::Value(toml_edit::Value::InlineTable(t)) => t.key(k).map(|k| k.span()),
            _ => None,
        }
    }
}

pub fn resolve<'a>(root: &'a toml_edit::Item, path: &[PathSeg]) -> Option<NodeRef<'a>> {
    let mut cur = NodeRef::Item(root);
    for seg in path {
        cur = cur.child(seg)?;
    }
    Some(cur)
}

/// spans the reader received: (path, start, end, is_key)
pub fn collect_spans(ty: &Ty, v: &Val, path: &mut Vec<PathSeg>, out: &mut Vec<(Vec<PathSeg>, usize, usize, bool)>) {
    match (ty, v) {
        (Ty::Spanned(t), Val::Spanned(s, e, x)) => {
            out.push((path.clone(), *s, *e, false));
            collect_spans(t, x, path, out);
        }
        (Ty::Option(t), Val::Some(x)) => collect_spans(t, x, path, out),
        (Ty::Newtype(_, t), x) => collect_spans(t, x, path, out),
        (Ty::Seq(t), Val::Seq(xs)) => {
            for (i, x) in xs.iter().enumerate() {
                path.push(PathSeg::I(i));
                collect_spans(t, x, path, out);
                path.pop();
            }
        }
        (Ty::Tuple(ts), Val::Seq(xs)) | (Ty::TupleStruct(_, ts), Val::Seq(xs)) => {
            for (i, (t, x)) in ts.iter().zip(xs).enumerate() {
                path.push(PathSeg::I(i));
                collect_spans(t, x, path, out);
                path.pop();
            }
        }
        (Ty::Map(kt, vt), Val::Map(kvs)) => {
            for (k, x) in kvs {
                let ks = match k {
                    Val::Spanned(s, e, inner) => {
                        let ks = match &**inner {
                            Val::Str(ks) => Some(ks.clone()),
                            other => crate::model::key_string(&kt.despanned(), other),
                        };
                        if let Some(ks) = ks {
                            let mut p = path.clone();
                            p.push(PathSeg::K(ks.clone()));
                            out.push((p, *s, *e, true));
                            Some(ks)
                        } else {
                            None
                        }
                    }
                    other => crate::model::key_string(kt, other),
                };
                if let Some(ks) = ks {
                    path.push(PathSeg::K(ks));
                    collect_spans(vt, x, path, out);
                    path.pop();
                }
            }
        }
        (Ty::Struct(_, fs), Val::Struct(xs)) => {
            for ((f, t), x) in fs.iter().zip(xs) {
                path.push(PathSeg::K(f.clone()));
                collect_spans(t, x, path, out);
                path.pop();
            }
        }
        (Ty::Enum(_, vars), Val::Variant(i, p)) => {
            let (name, vt) = &vars[*i];
            path.push(PathSeg::K(name.clone()));
            match (vt, &**p) {
                (VarTy::Newtype(t), x) => collect_spans(t, x, path, out),
                (VarTy::Tuple(ts), Val::Seq(xs)) => {
                    for (j, (t, x)) in ts.iter().zip(xs).enumerate() {
                        path.push(PathSeg::I(j));
                        collect_spans(t, x, path, out);
                        path.pop();
                    }
                }
                (VarTy::Struct(fs), Val::Struct(xs)) => {
                    for ((f, t), x) in fs.iter().zip(xs) {
                        path.push(PathSeg::K(f.clone()));
                        collect_spans(t, x, path, out);
                        path.pop();
                    }
                }
                _ => {}
            }
            path.pop();
        }
        _ => {}
    }
}

fn in_bounds(text: &str, s: usize, e: usize) -> bool {
    s <= e && e <= text.len() && text.is_char_boundary(s) && text.is_char_boundary(e)
}

fn fmt_path(p: &[PathSeg]) -> String {
    let mut s = String::from("$");
    for seg in p {
        match seg {
            PathSeg::K(k) => s.push_str(&format!(".{k:?}")),
            PathSeg::I(i) => s.push_str(&format!("[{i}]")),
        }
    }
    s
}

/// First sentence of C14 on every node of the library's tree, plus DocGen's independent table.
fn walk_doc(text: &str, root: &toml_edit::Item, doc: &DocSpec, out: &mut RunOut) {
    fn check_span(text: &str, what: &str, path: &[PathSeg], sp: &std::ops::Range<usize>, out: &mut RunOut) -> bool {
        out.stats.inc("oracle.span_bounds");
        if !in_bounds(text, sp.start, sp.end) {
            out.violate(
                "C14/1",
                format!("C14/span-out-of-bounds/{what}"),
                format!("span {sp:?} of {what} at {} is not inside the document (len {}) on character boundaries\n--- text ---\n{text}", fmt_path(path), text.len()),
            );
            return false;
        }
        true
    }
    fn inside(child: &std::ops::Range<usize>, parent: &std::ops::Range<usize>) -> bool {
        parent.start <= child.start && child.end <= parent.end
    }
    fn value(text: &str, v: &toml_edit::Value, path: &mut Vec<PathSeg>, out: &mut RunOut) {
        let sp = match v.span() {
            Some(sp) => sp,
            None => {
                // C14 speaks about the spans that *are* reported; an item without one (e.g. the
                // intermediate tables of `{ a.b = 1 }`) is only counted. Its children are still walked.
                out.stats.inc("probe.value_without_span");
                if let toml_edit::Value::InlineTable(t) = v {
                    for (k, c) in t.iter() {
                        path.push(PathSeg::K(k.to_string()));
                        if let Some(key) = t.key(k) {
                            key_check(text, key, path, None, out);
                        }
                        value(text, c, path, out);
                        path.pop();
                    }
                }
                return;
            }
        };
        if !check_span(text, "value", path, &sp, out) {
            return;
        }
        // clause 3: re-parsing the slice on its own yields the same value
        out.stats.inc("oracle.reparse_value");
        let slice = &text[sp.clone()];
        match catch_unwind(AssertUnwindSafe(|| slice.parse::<toml_edit::Value>())) {
            Ok(Ok(v2)) => {
                if Tree::from_edit_value(&v2) != Tree::from_edit_value(v) {
                    out.violate(
                        "C14/3",
                        "C14/reparse-differs/value".into(),
                        format!("slice {sp:?} of the value at {} re-parses to a different value\n slice: {slice:?}\n--- text ---\n{text}", fmt_path(path)),
                    );
                }
            }
            Ok(Err(e)) => out.violate(
                "C14/3",
                "C14/reparse-fails/value".into(),
                format!("slice {sp:?} of the value at {} does not parse as a value on its own ({})\n slice: {slice:?}\n--- text ---\n{text}", fmt_path(path), e.message()),
            ),
            Err(p) => out.violate("C14/3", "C14/panic/reparse".into(), format!("re-parsing a spanned slice panicked: {}", panic_msg(&p))),
        }
        match v {
            toml_edit::Value::Array(a) => {
                for (i, c) in a.iter().enumerate() {
                    path.push(PathSeg::I(i));
                    if let Some(cs) = c.span() {
                        out.stats.inc("oracle.nesting");
                        if !inside(&cs, &sp) {
                            out.violate("C14/4", "C14/child-outside-parent/array".into(), format!("element span {cs:?} at {} is not inside its array's span {sp:?}\n--- text ---\n{text}", fmt_path(path)));
                        }
                    }
                    value(text, c, path, out);
                    path.pop();
                }
            }
            toml_edit::Value::InlineTable(t) => {
                for (k, c) in t.iter() {
                    path.push(PathSeg::K(k.to_string()));
                    if let Some(key) = t.key(k) {
                        key_check(text, key, path, Some(&sp), out);
                    }
                    if let Some(cs) = c.span() {
                        out.stats.inc("oracle.nesting");
                        if !inside(&cs, &sp) {
                            out.violate("C14/4", "C14/child-outside-parent/inline-table".into(), format!("value span {cs:?} at {} is not inside its inline table's span {sp:?}\n--- text ---\n{text}", fmt_path(path)));
                        }
                    }
                    value(text, c, path, out);
                    path.pop();
                }
            }
            _ => {}
        }
    }
    fn key_check(text: &str, key: &toml_edit::Key, path: &[PathSeg], parent: Option<&std::ops::Range<usize>>, out: &mut RunOut) {
        let sp = match key.span() {
            Some(sp) => sp,
            None => {
                out.stats.inc("probe.key_without_span");
                return;
            }
        };
        if !check_span(text, "key", path, &sp, out) {
            return;
        }
        if let Some(p) = parent {
            out.stats.inc("oracle.nesting");
            if !inside(&sp, p) {
                out.violate("C14/4", "C14/child-outside-parent/key".into(), format!("key span {sp:?} at {} is not inside its inline table's span {p:?}\n--- text ---\n{text}", fmt_path(path)));
            }
        }
        out.stats.inc("oracle.reparse_key");
        let slice = &text[sp.clone()];
        match catch_unwind(AssertUnwindSafe(|| slice.parse::<toml_edit::Key>())) {
            Ok(Ok(k2)) => {
                if k2.get() != key.get() {
                    out.violate("C14/3", "C14/reparse-differs/key".into(), format!("slice {sp:?} of the key at {} re-parses to {:?}, not {:?}\n--- text ---\n{text}", fmt_path(path), k2.get(), key.get()));
                }
            }
            Ok(Err(e)) => out.violate("C14/3", "C14/reparse-fails/key".into(), format!("slice {sp:?} = {slice:?} of the key at {} does not parse as a key ({})\n--- text ---\n{text}", fmt_path(path), e.message())),
            Err(p) => out.violate("C14/3", "C14/panic/reparse".into(), format!("re-parsing a key slice panicked: {}", panic_msg(&p))),
        }
    }
    fn body_of_dotted(text: &str, t: &toml_edit::Table, owner: &std::ops::Range<usize>, path: &mut Vec<PathSeg>, out: &mut RunOut) {
        for (k, it) in t.iter() {
            path.push(PathSeg::K(k.to_string()));
            match it {
                toml_edit::Item::Value(v) => {
                    for (what, sp) in [("key", t.key(k).and_then(|k| k.span())), ("value", v.span())] {
                        if let Some(sp) = sp {
                            out.stats.inc("oracle.nesting");
                            if !inside(&sp, owner) {
                                out.violate(
                                    "C14/4",
                                    "C14/child-outside-parent/dotted-entry".into(),
                                    format!("{what} span {sp:?} at {} (written with a dotted key) is not inside the span {owner:?} of the table whose body it was written in\n--- text ---\n{text}", fmt_path(path)),
                                );
                            }
                        }
                    }
                }
                toml_edit::Item::Table(sub) if sub.is_dotted() => body_of_dotted(text, sub, owner, path, out),
                _ => {}
            }
            path.pop();
        }
    }
    fn table(text: &str, t: &toml_edit::Table, path: &mut Vec<PathSeg>, out: &mut RunOut) {
        let tsp = t.span();
        if let Some(sp) = &tsp {
            check_span(text, "table", path, sp, out);
        } else {
            out.stats.inc("probe.table_without_span");
        }
        for (k, it) in t.iter() {
            path.push(PathSeg::K(k.to_string()));
            if let Some(key) = t.key(k) {
                key_check(text, key, path, None, out);
            }
            match it {
                toml_edit::Item::Value(v) => {
                    // a direct value child of a spanned (header / root) table was written in that table's body
                    if let (Some(sp), Some(cs), false) = (&tsp, v.span(), t.is_dotted()) {
                        out.stats.inc("oracle.nesting");
                        if !inside(&cs, sp) {
                            out.violate("C14/4", "C14/child-outside-parent/table".into(), format!("value span {cs:?} at {} is not inside the span {sp:?} of the table whose body it was written in\n--- text ---\n{text}", fmt_path(path)));
                        }
                    }
                    value(text, v, path, out)
                }
                toml_edit::Item::Table(sub) => {
                    // entries written through dotted keys live in the body of the nearest table that
                    // has a header (or the root): their keys and values lie inside that table's span
                    if let (Some(sp), true, false) = (&tsp, sub.is_dotted(), t.is_dotted()) {
                        body_of_dotted(text, sub, sp, path, out);
                    }
                    table(text, sub, path, out)
                }
                toml_edit::Item::ArrayOfTables(a) => {
                    let asp = a.span();
                    match &asp {
                        Some(sp) => {
                            check_span(text, "array-of-tables", path, sp, out);
                        }
                        None => out.stats.inc("probe.aot_without_span"),
                    }
                    // "array-of-tables span = first..last element"
                    if let (Some(sp), Some(f), Some(l)) = (&asp, a.iter().next().and_then(|t| t.span()), a.iter().last().and_then(|t| t.span())) {
                        out.stats.inc("oracle.aot_span_exact");
                        if sp.start != f.start || sp.end != l.end {
                            out.violate(
                                "C14/4",
                                "C14/array-of-tables-span-differs".into(),
                                format!("array of tables at {} has span {sp:?}, its first element starts at {} and its last element ends at {}\n--- text ---\n{text}", fmt_path(path), f.start, l.end),
                            );
                        }
                    }
                    for (i, e) in a.iter().enumerate() {
                        path.push(PathSeg::I(i));
                        if let (Some(sp), Some(es)) = (&asp, e.span()) {
                            out.stats.inc("oracle.nesting");
                            if !inside(&es, sp) {
                                out.violate("C14/4", "C14/child-outside-parent/array-of-tables".into(), format!("element span {es:?} at {} is not inside the array of tables' span {sp:?}\n--- text ---\n{text}", fmt_path(path)));
                            }
                        }
                        table(text, e, path, out);
                        path.pop();
                    }
                }
                toml_edit::Item::None => {}
            }
            path.pop();
        }
    }
    if let toml_edit::Item::Table(t) = root {
        let mut path = Vec::new();
        table(text, t, &mut path, out);
    }
    // a table the generator wrote with its own [header] reports a span (the documented mechanism:
    // header start .. end of the last value of its body)
    for (hi, (path, hstart)) in doc.headers.iter().enumerate() {
        out.stats.inc("oracle.header_table_has_span");
        match resolve(root, path).map(|n| n.span()) {
            Some(Some(sp)) => {
                // "table span = header start .. end of last value": exact, from the generator's own record
                if doc.header_ends.len() == doc.headers.len() {
                    out.stats.inc("oracle.header_table_span_exact");
                    let want = *hstart..doc.header_ends[hi];
                    if sp != want {
                        out.violate(
                            "C14/4",
                            "C14/header-table-span-differs".into(),
                            format!(
                                "table at {} has span {sp:?} = {:?}; written: header at {hstart}, last key/value line of its body ends at {} (expected {want:?} = {:?})\n--- text ---\n{text}",
                                fmt_path(path),
                                text.get(sp.clone()),
                                doc.header_ends[hi],
                                text.get(want.clone())
                            ),
                        );
                    }
                }
                if !(sp.start <= *hstart && *hstart < sp.end) {
                    out.violate(
                        "C14/4",
                        "C14/header-outside-table-span".into(),
                        format!("table at {} has span {sp:?} which does not contain its own header at byte {hstart}\n--- text ---\n{text}", fmt_path(path)),
                    );
                }
            }
            Some(None) => out.violate(
                "C14/1",
                "C14/header-table-without-span".into(),
                format!("table at {} was written with its own header at byte {hstart} but reports no span\n--- text ---\n{text}", fmt_path(path)),
            ),
            None => {}
        }
    }
    // clause 2, independent part: the byte ranges DocGen recorded while writing
    for (path, s, e, is_key) in &doc.spans {
        let parent = &path[..path.len().saturating_sub(1)];
        let got = if *is_key {
            let k = match path.last() {
                Some(PathSeg::K(k)) => k,
                _ => continue,
            };
            resolve(root, parent).and_then(|n| n.key_span(k)).flatten()
        } else {
            resolve(root, path).and_then(|n| n.span())
        };
        out.stats.inc("oracle.docgen_span");
        // a key written several times (dotted prefixes aside, only leaf keys are recorded, so this is exact)
        if got != Some(*s..*e) {
            out.violate(
                "C14/2",
                format!("C14/span-differs-from-written-range/{}", if *is_key { "key" } else { "value" }),
                format!("{} at {}: the library reports span {got:?}, the token was written at {s}..{e} = {:?}\n--- text ---\n{text}", if *is_key { "key" } else { "value" }, fmt_path(path), text.get(*s..*e)),
            );
        }
    }
}

fn all_spans_none(doc: &toml_edit::DocumentMut) -> Option<String> {
    fn value(v: &toml_edit::Value, p: &mut Vec<String>) -> Option<String> {
        if v.span().is_some() {
            return Some(format!("value at {}", p.join(".")));
        }
        match v {
            toml_edit::Value::Array(a) => {
                for (i, c) in a.iter().enumerate() {
                    p.push(i.to_string());
                    let r = value(c, p);
                    p.pop();
                    if r.is_some() {
                        return r;
                    }
                }
            }
            toml_edit::Value::InlineTable(t) => {
                for (k, c) in t.iter() {
                    p.push(k.to_string());
                    if t.key(k).map(|k| k.span().is_some()).unwrap_or(false) {
                        return Some(format!("key at {}", p.join(".")));
                    }
                    let r = value(c, p);
                    p.pop();
                    if r.is_some() {
                        return r;
                    }
                }
            }
            _ => {}
        }
        None
    }
    fn table(t: &toml_edit::Table, p: &mut Vec<String>) -> Option<String> {
        if t.span().is_some() {
            return Some(format!("table at {}", p.join(".")));
        }
        for (k, it) in t.iter() {
            p.push(k.to_string());
            if t.key(k).map(|k| k.span().is_some()).unwrap_or(false) {
                return Some(format!("key at {}", p.join(".")));
            }
            let r = match it {
                toml_edit::Item::Value(v) => value(v, p),
                toml_edit::Item::Table(s) => table(s, p),
                toml_edit::Item::ArrayOfTables(a) => {
                    if a.span().is_some() {
                        Some(format!("array of tables at {}", p.join(".")))
                    } else {
                        let mut r = None;
                        for (i, e) in a.iter().enumerate() {
                            p.push(i.to_string());
                            r = table(e, p);
                            p.pop();
                            if r.is_some() {
                                break;
                            }
                        }
                        r
                    }
                }
                toml_edit::Item::None => None,
            };
            p.pop();
            if r.is_some() {
                return r;
            }
        }
        None
    }
    table(doc.as_table(), &mut Vec::new())
}

fn contains_spanned(v: &Val) -> bool {
    match v {
        Val::Spanned(..) => true,
        Val::Some(x) | Val::Variant(_, x) => contains_spanned(x),
        Val::Seq(xs) | Val::Struct(xs) => xs.iter().any(contains_spanned),
        Val::Map(kvs) => kvs.iter().any(|(k, x)| contains_spanned(k) || contains_spanned(x)),
        _ => false,
    }
}

pub fn execute(sc: &Scenario, verbose: bool) -> RunOut {
    let mut out = RunOut::default();
    if sc.workload == "H" {
        hashed_collections(sc, &mut out);
        return out;
    }
    let ty = &sc.ty;
    let doc = sc.doc.as_ref().expect("C14 without document");
    let text = &doc.text;
    out.note(text);
    let parsed = catch_unwind(AssertUnwindSafe(|| toml_edit::ImDocument::parse(text.clone())));
    let im = match parsed {
        Err(p) => {
            out.violate("C14/1", "C14/panic/parse".into(), format!("parser panicked: {}\n--- text ---\n{text}", panic_msg(&p)));
            return out;
        }
        Ok(Err(_)) => {
            out.stats.inc("docgen_rejected");
            return out;
        }
        Ok(Ok(d)) => d,
    };
    if let Some(expected) = &doc.tree {
        let tree = Tree::from_item(im.as_item()).unwrap_or(Tree::Tab(vec![]));
        if !expected.eq_unordered(&tree) {
            out.stats.inc("docgen_tree_mismatch");
            return out;
        }
    }
    out.stats.inc(&format!("source.{}", doc.source.split(':').next().unwrap_or("?")));
    for (bit, name) in [(F_BOM, "bom"), (F_CRLF, "crlf"), (F_COMMENTS, "comments"), (F_WS, "odd_whitespace"), (F_ML_ARRAYS, "multiline_arrays"), (F_SPELLINGS, "exotic_spellings"), (F_REORDER, "reordered_headers")] {
        if doc.plan.as_ref().map(|p| p.features & bit != 0).unwrap_or(false) {
            out.stats.inc(&format!("probe.layout.{name}"));
        }
    }
    if text.chars().any(|c| c.len_utf8() > 1) {
        out.stats.inc("probe.multibyte_text");
    }
    {
        // reach of the rarer reader shapes (serialized form of the type description is searched: cheap and exact enough)
        let tys = format!("{:?}", sc.ty);
        if tys.contains("SpannedKey(") {
            out.stats.inc("probe.spanned_non_string_key_type");
        }
        if tys.contains("Tuple(") && text.contains("0 =") {
            out.stats.inc("probe.tuple_type_with_positional_keys_in_document");
        }
    }
    if sc.only.is_empty() || sc.wants("walk") {
        let r = catch_unwind(AssertUnwindSafe(|| {
            let mut o = RunOut::default();
            walk_doc(text, im.as_item(), doc, &mut o);
            o
        }));
        match r {
            Ok(o) => {
                out.violations.extend(o.violations);
                out.stats.merge(&o.stats);
            }
            Err(p) => {
                let m = panic_msg(&p);
                out.violate("C14/1", "C14/panic/span-accessors".into(), format!("walking the parsed document panicked: {m}\n--- text ---\n{text}"));
            }
        }
    }

    // the reader asks for spans where the scenario says so
    let plain = ty.despanned();
    let root_item = im.as_item();
    for route in SPAN_ROUTES {
        if !route_on(sc, route) {
            continue;
        }
        out.stats.inc(&format!("route.{}", route.split(':').next().unwrap_or(route)));
        let run = |t: &Ty, out: &mut RunOut, title: &str| {
            let cx = Ctx::new(Fault::None, verbose);
            let rcfg = RCfg::plain();
            let r = catch_unwind(AssertUnwindSafe(|| run_route(route, text, t, &rcfg, &cx)));
            out.absorb(&cx);
            if verbose {
                out.log.push(format!("--- {route} {title}"));
                for e in cx.log.borrow().iter() {
                    out.log.push(format!("  {} {:>2} {} {:?}", e.c, e.d, e.k, e.p));
                }
            }
            r
        };
        let r_sp = run(ty, &mut out, "with Spanned");
        let r_pl = run(&plain, &mut out, "plain");
        let (r_sp, r_pl) = match (r_sp, r_pl) {
            (Ok(a), Ok(b)) => (a, b),
            (a, b) => {
                let m = a.err().or(b.err()).map(|p| panic_msg(&p)).unwrap_or_default();
                if m.contains("HARNESS") {
                    out.harness_error = Some(m);
                    return out;
                }
                out.violate("C14/5", format!("C14/panic/route={route}"), format!("{route} panicked: {m}\n--- text ---\n{text}"));
                continue;
            }
        };
        out.stats.inc("oracle.spanned_invariance");
        match (&r_sp, &r_pl) {
            (Ok(a), Ok(b)) => {
                if a.despan().canon(false) != b.canon(false) {
                    out.violate(
                        "C14/5",
                        format!("C14/spanned-changes-value/route={route}"),
                        format!("{route}: wrapping in Spanned changes the decoded value\n with:    {:?}\n without: {:?}\n--- text ---\n{text}", a.despan(), b),
                    );
                }
                let mut got = Vec::new();
                collect_spans(ty, a, &mut Vec::new(), &mut got);
                for (path, s, e, is_key) in got {
                    out.stats.inc(if is_key { "probe.span_delivered.key" } else { "probe.span_delivered.value" });
                    if !in_bounds(text, s, e) {
                        out.violate(
                            "C14/1",
                            "C14/delivered-span-out-of-bounds".into(),
                            format!("{route}: span {s}..{e} delivered at {} is not inside the document on character boundaries\n--- text ---\n{text}", fmt_path(&path)),
                        );
                        continue;
                    }
                    // clause 2: the same range as the tree's own accessor
                    let parent = &path[..path.len().saturating_sub(1)];
                    let (node_span, kind): (Option<Option<std::ops::Range<usize>>>, &str) = if is_key {
                        let k = match path.last() {
                            Some(PathSeg::K(k)) => k.clone(),
                            _ => continue,
                        };
                        (resolve(root_item, parent).and_then(|n| n.key_span(&k)), "key")
                    } else {
                        match resolve(root_item, &path) {
                            Some(n) => {
                                let kind = match &n {
                                    NodeRef::Item(toml_edit::Item::Table(_)) | NodeRef::Table(_) => "table",
                                    NodeRef::Item(toml_edit::Item::ArrayOfTables(_)) => "array-of-tables",
                                    _ => "value",
                                };
                                out.stats.inc(&format!("probe.span_requested.{kind}"));
                                (Some(n.span()), kind)
                            }
                            None => (None, "?"),
                        }
                    };
                    match node_span {
                        Some(Some(ns)) => {
                            out.stats.inc("oracle.delivered_equals_accessor");
                            if ns != (s..e) {
                                out.violate(
                                    "C14/2",
                                    format!("C14/delivered-span-differs/{kind}"),
                                    format!("{route}: Spanned at {} delivered {s}..{e}, the document's own span() is {ns:?}\n--- text ---\n{text}", fmt_path(&path)),
                                );
                            }
                        }
                        Some(None) => {
                            // a table without a span of its own (dotted keys / implied by a header): whatever
                            // is delivered must at least cover all of its children
                            out.stats.inc("probe.span_requested.spanless_table");
                            if let Some(n) = resolve(root_item, &path) {
                                check_cover(text, &n, s, e, route, &path, &mut out);
                            }
                        }
                        None => {}
                    }
                }
            }
            (Err(_), Err(_)) => out.stats.inc("outcome.both_fail"),
            (Err(e), Ok(_)) => out.violate(
                "C14/5",
                format!("C14/spanned-changes-verdict/route={route}"),
                format!("{route}: decoding succeeds without Spanned but fails with it: {}\n type: {}\n--- text ---\n{text}", e.rendered, crate::render::rust_decl(ty)),
            ),
            (Ok(_), Err(e)) => out.violate(
                "C14/5",
                format!("C14/spanned-changes-verdict/route={route}"),
                format!("{route}: decoding fails without Spanned ({}) but succeeds with it\n--- text ---\n{text}", e.rendered),
            ),
        }
    }

    // clause 6: once the document is made editable, spans are gone, never stale
    if sc.wants(R4) {
        let r = catch_unwind(AssertUnwindSafe(|| {
            let dm = toml_edit::ImDocument::parse(text.clone()).ok().map(|d| d.into_mut());
            let dm2 = text.parse::<toml_edit::DocumentMut>().ok();
            (dm.as_ref().and_then(all_spans_none), dm2.as_ref().and_then(all_spans_none))
        }));
        out.stats.inc("oracle.despan");
        match r {
            Ok((a, b)) => {
                if let Some(w) = a.or(b) {
                    out.violate("C14/6", "C14/stale-span-after-into_mut".into(), format!("after making the document editable, {w} still reports a span\n--- text ---\n{text}"));
                }
            }
            Err(p) => out.violate("C14/6", "C14/panic/into_mut".into(), format!("into_mut / span accessors panicked: {}", panic_msg(&p))),
        }
        for route in [R4, R4K] {
            let cx = Ctx::new(Fault::None, verbose);
            let rcfg = RCfg::plain();
            let r = catch_unwind(AssertUnwindSafe(|| run_route(route, text, ty, &rcfg, &cx)));
            out.absorb(&cx);
            match r {
                Ok(Ok(v)) => {
                    if contains_spanned(&v) {
                        out.violate("C14/6", "C14/span-delivered-from-editable-document".into(), format!("{route} delivered a span although the document no longer has any\n value: {v:?}\n--- text ---\n{text}"));
                    }
                }
                Ok(Err(_)) => {}
                Err(p) => out.violate("C14/6", format!("C14/panic/route={route}"), format!("{route} panicked: {}", panic_msg(&p))),
            }
        }
    }
    out
}

/// For a table that has no span of its own: a delivered range must be in bounds and contain every
/// child's span (children inside parent).
fn check_cover(text: &str, n: &NodeRef<'_>, s: usize, e: usize, route: &str, path: &[PathSeg], out: &mut RunOut) {
    fn child_spans(t: &toml_edit::Table, acc: &mut Vec<std::ops::Range<usize>>) {
        for (k, it) in t.iter() {
            if let Some(ks) = t.key(k).and_then(|k| k.span()) {
                acc.push(ks);
            }
            match it.span() {
                Some(sp) => acc.push(sp),
                None => {
                    if let toml_edit::Item::Table(sub) = it {
                        child_spans(sub, acc)
                    }
                }
            }
        }
    }
    let t = match *n {
        NodeRef::Item(toml_edit::Item::Table(t)) | NodeRef::Table(t) => t,
        _ => return,
    };
    let mut acc = Vec::new();
    child_spans(t, &mut acc);
    for c in acc {
        out.stats.inc("oracle.nesting");
        if !(s <= c.start && c.end <= e) {
            out.violate(
                "C14/4",
                "C14/child-outside-parent/spanless-table".into(),
                format!("{route}: span {s}..{e} delivered for the table at {} does not contain its child's span {c:?}\n--- text ---\n{text}", fmt_path(path)),
            );
            return;
        }
    }
}
