//! Shared scenario / result types.

use crate::types::*;
use serde::{Deserialize, Serialize};
use std::collections::BTreeMap;

#[derive(Clone, Debug, PartialEq, Eq, Serialize, Deserialize)]
pub enum FaultSpec {
    None,
    /// F-SER at the k-th nested Serialize::serialize call
    Ser(u32),
    /// F-SER after the k-th nested call's own serializer call returned
    SerExit(u32),
    /// F-SER at every k (one execution per k)
    SerEvery,
    /// F-VIS at visitor callback k, at entry (false) or exit (true)
    Vis(u32, bool),
    /// F-VIS at every callback, entry and exit (one execution per position), plus F-SINK at every write of every error
    VisEvery,
    /// F-SEED at seed k, before (false) / after (true) the seed ran
    Seed(u32, bool),
}

/// A document with the harness's own knowledge about it (workload B).
#[derive(Clone, Debug, PartialEq, Eq, Serialize, Deserialize)]
pub struct DocSpec {
    pub text: String,
    /// expected decoded tree (from the generator's plan / for corpus files from the toml-test JSON)
    pub tree: Option<Tree>,
    /// (path, start, end, is_key) recorded by DocGen while writing
    pub spans: Vec<(Vec<PathSeg>, usize, usize, bool)>,
    pub source: String,
    /// the layout plan the text was rendered from (DocGen documents only): lets the minimiser shrink the document
    #[serde(default)]
    pub plan: Option<crate::docgen::DocPlan>,
    /// (path of a table written with its own [header] / [[header]], byte offset of the header's `[`)
    #[serde(default)]
    pub headers: Vec<(Vec<PathSeg>, usize)>,
    /// parallel to `headers`: where that table's span is expected to end (end of the last key/value
    /// line written under the header; the header's closing bracket when there is none)
    #[serde(default)]
    pub header_ends: Vec<usize>,
}

#[derive(Clone, Debug, PartialEq, Eq, Hash, Serialize, Deserialize, PartialOrd, Ord)]
pub enum PathSeg {
    K(String),
    I(usize),
}

/// workload R: a value of a real derived type, as a pure function of (family, seed, size)
#[derive(Clone, Debug, PartialEq, Eq, Serialize, Deserialize)]
pub struct RealSpec {
    pub family: String,
    pub vseed: u64,
    pub size: u32,
}

#[derive(Clone, Debug, PartialEq, Eq, Serialize, Deserialize)]
pub struct Scenario {
    pub property: String,
    /// "A" (type + value), "B" (document + type), "C" (reorder)
    pub workload: String,
    pub ty: Ty,
    pub val: Option<Val>,
    pub doc: Option<DocSpec>,
    pub whmask: u32,
    pub whseed: u64,
    pub rhmask: u32,
    pub rhseed: u64,
    pub fault: FaultSpec,
    /// alternative emission orders of the same value (workload C)
    pub perms: Vec<Val>,
    /// restrict to these serializers / routes (empty = all); used by the minimiser
    pub only: Vec<String>,
    #[serde(default)]
    pub real: Option<RealSpec>,
    /// bit mask selecting the alias routes (routes::ALIAS_ROUTES) run in this scenario
    #[serde(default)]
    pub alias: u32,
}

impl Scenario {
    pub fn new(property: &str, workload: &str, ty: Ty) -> Self {
        Scenario {
            property: property.to_string(),
            workload: workload.to_string(),
            ty,
            val: None,
            doc: None,
            whmask: 0,
            whseed: 0,
            rhmask: 0,
            rhseed: 0,
            fault: FaultSpec::None,
            perms: Vec::new(),
            only: Vec::new(),
            real: None,
            alias: 0,
        }
    }
    pub fn wants(&self, name: &str) -> bool {
        self.only.is_empty() || self.only.iter().any(|o| o == name)
    }
}

#[derive(Clone, Debug, PartialEq, Eq, Serialize, Deserialize)]
pub struct Violation {
    /// e.g. "C07/2"
    pub oracle: String,
    /// structural cause, stable under minimisation: used for known-findings matching
    pub signature: String,
    pub detail: String,
}

#[derive(Clone, Debug, Default, Serialize, Deserialize)]
pub struct Stats {
    pub counters: BTreeMap<String, u64>,
}
impl Stats {
    pub fn inc(&mut self, k: &str) {
        *self.counters.entry(k.to_string()).or_insert(0) += 1;
    }
    pub fn add(&mut self, k: &str, n: u64) {
        *self.counters.entry(k.to_string()).or_insert(0) += n;
    }
    pub fn merge(&mut self, other: &Stats) {
        for (k, v) in &other.counters {
            *self.counters.entry(k.clone()).or_insert(0) += v;
        }
    }
    pub fn get(&self, k: &str) -> u64 {
        self.counters.get(k).copied().unwrap_or(0)
    }
}

#[derive(Clone, Debug, Default)]
pub struct RunOut {
    pub violations: Vec<Violation>,
    pub stats: Stats,
    /// hash of the conversation shapes of this run (payloads erased)
    pub shape: u64,
    /// hash of everything observable in this run
    pub digest: u64,
    pub events: u64,
    /// executions (library invocations) performed
    pub execs: u64,
    pub harness_error: Option<String>,
    /// human-readable log lines (only when verbose)
    pub log: Vec<String>,
}

impl RunOut {
    pub fn violate(&mut self, oracle: &str, signature: String, detail: String) {
        self.violations.push(Violation { oracle: oracle.to_string(), signature, detail });
    }
    pub fn absorb(&mut self, cx: &crate::seam::Ctx) {
        crate::runner::heartbeat();
        self.events += cx.nev.get() as u64;
        self.shape = crate::rng::mix(&[self.shape, cx.shape.get()]);
        self.digest = crate::rng::mix(&[self.digest, cx.digest.get()]);
        self.execs += 1;
    }
    pub fn note(&mut self, s: &str) {
        self.digest = crate::rng::mix(&[self.digest, crate::rng::fnv(s.as_bytes())]);
    }
}

pub fn panic_msg(p: &Box<dyn std::any::Any + Send>) -> String {
    if let Some(s) = p.downcast_ref::<&str>() {
        s.to_string()
    } else if let Some(s) = p.downcast_ref::<String>() {
        s.clone()
    } else {
        "<non-string panic>".to_string()
    }
}

/// coarse structural class of a type (for signatures / fault-site statistics)
pub fn ty_kind(t: &Ty) -> &'static str {
    match t {
        Ty::Bool => "bool",
        Ty::I8 | Ty::I16 | Ty::I32 | Ty::I64 | Ty::U8 | Ty::U16 | Ty::U32 | Ty::U64 | Ty::I128 | Ty::U128 => "int",
        Ty::F32 => "f32",
        Ty::F64 => "float",
        Ty::Char => "char",
        Ty::Str => "str",
        Ty::Datetime | Ty::Date | Ty::Time => "datetime",
        Ty::Option(_) => "option",
        Ty::Seq(_) => "seq",
        Ty::Tuple(_) => "tuple",
        Ty::TupleStruct(..) => "tuple_struct",
        Ty::Map(..) => "map",
        Ty::Struct(..) => "struct",
        Ty::Newtype(..) => "newtype",
        Ty::Enum(..) => "enum",
        Ty::Unit | Ty::UnitStruct(_) => "unit",
        Ty::Any => "any",
        Ty::Spanned(_) => "spanned",
    }
}

/// set of structural features present in a type (sorted, deduplicated) — shape part of a signature
pub fn ty_features(t: &Ty) -> Vec<&'static str> {
    fn go(t: &Ty, out: &mut Vec<&'static str>) {
        out.push(ty_kind(t));
        match t {
            Ty::Option(t) | Ty::Seq(t) | Ty::Map(_, t) | Ty::Newtype(_, t) | Ty::Spanned(t) => go(t, out),
            Ty::Tuple(ts) | Ty::TupleStruct(_, ts) => ts.iter().for_each(|t| go(t, out)),
            Ty::Struct(_, fs) => fs.iter().for_each(|(_, t)| go(t, out)),
            Ty::Enum(_, vs) => vs.iter().for_each(|(_, v)| match v {
                VarTy::Unit => out.push("unit_variant"),
                VarTy::Newtype(t) => {
                    out.push("newtype_variant");
                    go(t, out)
                }
                VarTy::Tuple(ts) => {
                    out.push("tuple_variant");
                    ts.iter().for_each(|t| go(t, out))
                }
                VarTy::Struct(fs) => {
                    out.push("struct_variant");
                    fs.iter().for_each(|(_, t)| go(t, out))
                }
            }),
            _ => {}
        }
    }
    let mut v = Vec::new();
    go(t, &mut v);
    v.sort();
    v.dedup();
    v
}
