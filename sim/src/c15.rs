//! C15 (second sentence) — errors raised while deserializing a syntactically valid document into a
//! Rust type are located: the offending value's span when the source text is available, its key
//! path otherwise; rendering never panics and reports line/column of the span start.
//!
//! Fault *enumeration*: a reader failure is injected at entry and at exit of EVERY visitor callback
//! of every (document, type, route) explored; every error obtained is rendered into a sink that
//! fails at EVERY write.

use crate::c14::{resolve, NodeRef};
use crate::common::*;
use crate::docgen::*;
use crate::gen::{Gen, GenCfg, Pos};
use crate::reader::*;
use crate::rng::Rng;
use crate::routes::*;
use crate::seam::*;
use crate::types::*;
use crate::writer::*;
use std::fmt::Write as _;
use std::panic::{catch_unwind, AssertUnwindSafe};

pub const ROUTES: &[&str] = DOC_ROUTES_X;
pub const NAMES: &[&str] = ROUTES;
const MAX_CALLBACKS: u32 = 160;

pub fn generate(rng: &mut Rng, _tier: &str) -> Scenario {
    if rng.chance(1, 8) {
        return crate::realfam::generate("C15", rng);
    }
    if rng.chance(1, 3) {
        // workload A: text obtained by serializing a value; the mirrored type reads it (covers every enum shape)
        for _ in 0..20 {
            let mut cfg = GenCfg::swarm(rng);
            cfg.p_unsupported = 0;
            cfg.budget = cfg.budget.min(24);
            let mut g = Gen::new(rng, cfg);
            let ty = g.ty(0, Pos::Root);
            let val = g.val(&ty);
            let wcfg = WCfg::new(0, 0);
            let w = W { ty: &ty, v: &val, cfg: &wcfg };
            let text = catch_unwind(AssertUnwindSafe(|| if rng_bool(&val) { toml::to_string(&w).ok() } else { toml::to_string_pretty(&w).ok() })).ok().flatten();
            if let Some(text) = text {
                let mut sc = Scenario::new("C15", "A", ty);
                sc.doc = Some(DocSpec { text, tree: None, spans: vec![], source: "serialized".into(), plan: None, headers: vec![], header_ends: vec![] });
                sc.fault = FaultSpec::VisEvery;
                return sc;
            }
        }
    }
    let (doc, tree) = gen_doc(rng);
    let cfg = InferCfg { mismatch: if rng.chance(1, 6) { 5 } else { 0 }, spanned: *rng.pick(&[0u32, 0, 0, 15]), any: *rng.pick(&[0, 10, 30]) };
    let ty = infer(rng, &tree, &cfg, 0, true);
    let mut sc = Scenario::new("C15", "B", ty);
    sc.doc = Some(doc);
    sc.fault = FaultSpec::VisEvery;
    sc
}

fn rng_bool(v: &Val) -> bool {
    crate::rng::fnv(format!("{v:?}").as_bytes()) & 1 == 0
}

fn to_path(segs: &[Seg]) -> (Vec<PathSeg>, Vec<String>, bool) {
    // (document path up to the first private protocol key, keys of the next_value frames, truncated?)
    let mut p = Vec::new();
    let mut keys = Vec::new();
    for s in segs {
        match s {
            Seg::Key(k) => {
                if k == serde_spanned::__unstable::VALUE_FIELD {
                    continue; // the payload of a Spanned wrapper is the node itself
                }
                if is_private_key(k) {
                    return (p, keys, true);
                }
                p.push(PathSeg::K(k.clone()));
                keys.push(k.clone());
            }
            Seg::Var(k) => p.push(PathSeg::K(k.clone())),
            Seg::Idx(i) => p.push(PathSeg::I(*i)),
        }
    }
    (p, keys, false)
}

fn nth_key_span(n: &NodeRef<'_>, i: usize) -> Option<std::ops::Range<usize>> {
    match *n {
        NodeRef::Item(toml_edit::Item::Table(t)) | NodeRef::Table(t) => t.iter().nth(i).and_then(|(k, _)| t.key(k)).and_then(|k| k.span()),
        NodeRef::Item(toml_edit::Item::Value(toml_edit::Value::InlineTable(t))) | NodeRef::Value(toml_edit::Value::InlineTable(t)) => t.iter().nth(i).and_then(|(k, _)| t.key(k)).and_then(|k| k.span()),
        // an enum written as a string: the "key" is the string value itself
        other => other.span(),
    }
}

/// the spans C15 accepts for a failure at this callback (clause 3)
fn allowed_spans(root: &toml_edit::Item, f: &Fired) -> Vec<std::ops::Range<usize>> {
    let mut allowed = Vec::new();
    let (npath, _, truncated) = to_path(&f.path);
    // a private protocol's own field names are read in key position too, but they belong to the node
    let _ = truncated;
    // ... (for a seed-level failure the field name is not known yet: the innermost hint tells whether the
    // map being read is a private protocol's)
    // (a protocol requested *in key position* — `Spanned<String>` keys — belongs to the key; the date-time
    // protocol is only served for date-time values: asked of anything else the reader gets the real map)
    let node_is_datetime = matches!(
        resolve(root, &npath),
        Some(NodeRef::Item(toml_edit::Item::Value(toml_edit::Value::Datetime(_)))) | Some(NodeRef::Value(toml_edit::Value::Datetime(_)))
    );
    let hint_private = f
        .hints
        .last()
        .map(|h| !h.in_key && (h.name.starts_with("$__serde_spanned_private") || (h.name.starts_with("$__toml_private") && node_is_datetime)))
        .unwrap_or(false);
    let key_level = f.in_key && !(f.key_depth == 1 && (is_private_key(&f.payload) || (f.cb == "seed" && hint_private)));
    let loc = |path: &[PathSeg], key_level: bool| -> Option<std::ops::Range<usize>> {
        let n = resolve(root, path)?;
        if key_level {
            nth_key_span(&n, f.key_index)
        } else {
            n.span()
        }
    };
    // a node without a span of its own (dotted-key / header-implied table) has no "offending value's
    // span" to carry: the library attaches the nearest location it has on the way out, and which
    // one that is depends on the deserializers in between (the table form of a tuple variant, for
    // one, attaches none of its own). Accepted: the range covering the node's keys and values
    // (what a Spanned request on it delivers), or the span / cover / reaching key of any node that
    // encloses it. (Until round 8 only the nearest spanned ancestor was accepted: two false alarms
    // on the unchanged tree, VERIF_SEED 116 and the evidence run of round 7.)
    let with_fallback = |path: &[PathSeg], key_level: bool, allowed: &mut Vec<std::ops::Range<usize>>| {
        if let Some(s) = loc(path, key_level) {
            allowed.push(s);
            return;
        }
        if let Some(n) = resolve(root, path) {
            if let Some(c) = cover_span(&n) {
                allowed.push(c);
            }
        }
        let mut p = path.to_vec();
        while let Some(last) = p.pop() {
            if let PathSeg::K(k) = &last {
                if let Some(Some(ks)) = resolve(root, &p).and_then(|n| n.key_span(k)) {
                    allowed.push(ks);
                }
            }
            if let Some(s) = resolve(root, &p).and_then(|n| n.span()) {
                allowed.push(s);
                continue;
            }
            // a span-less ancestor that the reader wrapped in Spanned is located by its cover range
            if let Some(c) = resolve(root, &p).and_then(|n| cover_span(&n)) {
                allowed.push(c);
            }
        }
    };
    with_fallback(&npath, key_level, &mut allowed);
    // A span-less node inside the payload of a tuple variant written in table form (`V = { 0.a = 1 }`):
    // the library builds the element sequence itself, and what it builds carries no span, so the
    // nearest location it can attach is the enum value's (as for the tuple variant's own visitor below)
    if loc(&npath, key_level).is_none() {
        if let Some(v) = f.path.iter().rposition(|s| matches!(s, Seg::Var(_))) {
            let (epath, _, _) = to_path(&f.path[..v]);
            if let Some(s) = resolve(root, &epath).and_then(|n| n.span()) {
                out_enum_fallback(&mut allowed, s);
            }
        }
    }
    // P: the innermost node on which the reader itself invoked a deserialize_* method. It differs
    // from N only for the visitor handed directly to `tuple_variant` / `struct_variant`. For a tuple
    // variant the library builds the sequence itself and attaches the enum value's span, which is
    // accepted; a struct variant's payload is a table with a span of its own and must be named.
    let p_applies = f.direct_variant != Some("struct_variant") && f.cb != "seed";
    if let (Some(h), true) = (f.hints.last(), p_applies) {
        let (ppath, _, _) = to_path(&f.path[..h.plen.min(f.path.len())]);
        with_fallback(&ppath, h.in_key && !(h.key_depth == 1 && is_private_key(&f.payload)), &mut allowed);
    }
    allowed
}

fn out_enum_fallback(allowed: &mut Vec<std::ops::Range<usize>>, s: std::ops::Range<usize>) {
    if !allowed.contains(&s) {
        allowed.push(s);
    }
}

/// smallest range covering all keys and values of a table-like node (recursively through span-less children)
fn cover_span(n: &NodeRef<'_>) -> Option<std::ops::Range<usize>> {
    fn items<'a>(n: &NodeRef<'a>) -> Vec<(Option<std::ops::Range<usize>>, NodeRef<'a>)> {
        match *n {
            NodeRef::Item(toml_edit::Item::Table(t)) | NodeRef::Table(t) => t.iter().map(|(k, it)| (t.key(k).and_then(|k| k.span()), NodeRef::Item(it))).collect(),
            NodeRef::Item(toml_edit::Item::Value(toml_edit::Value::InlineTable(t))) | NodeRef::Value(toml_edit::Value::InlineTable(t)) => {
                t.iter().map(|(k, v)| (t.key(k).and_then(|k| k.span()), NodeRef::Value(v))).collect()
            }
            _ => Vec::new(),
        }
    }
    let mut acc: Option<std::ops::Range<usize>> = None;
    let mut add = |r: std::ops::Range<usize>| {
        acc = Some(match acc.take() {
            Some(a) => a.start.min(r.start)..a.end.max(r.end),
            None => r,
        })
    };
    for (ks, child) in items(n) {
        if let Some(ks) = ks {
            add(ks);
        }
        if let Some(cs) = child.span().or_else(|| cover_span(&child)) {
            add(cs);
        }
    }
    acc
}

/// every (key text, key span) of the document
fn all_key_spans(root: &toml_edit::Item) -> Vec<(String, std::ops::Range<usize>)> {
    fn value(v: &toml_edit::Value, out: &mut Vec<(String, std::ops::Range<usize>)>) {
        match v {
            toml_edit::Value::Array(a) => a.iter().for_each(|x| value(x, out)),
            toml_edit::Value::InlineTable(t) => {
                for (k, x) in t.iter() {
                    if let Some(sp) = t.key(k).and_then(|k| k.span()) {
                        out.push((k.to_string(), sp));
                    }
                    value(x, out);
                }
            }
            _ => {}
        }
    }
    fn table(t: &toml_edit::Table, out: &mut Vec<(String, std::ops::Range<usize>)>) {
        for (k, it) in t.iter() {
            if let Some(sp) = t.key(k).and_then(|k| k.span()) {
                out.push((k.to_string(), sp));
            }
            match it {
                toml_edit::Item::Value(v) => value(v, out),
                toml_edit::Item::Table(s) => table(s, out),
                toml_edit::Item::ArrayOfTables(a) => a.iter().for_each(|e| table(e, out)),
                toml_edit::Item::None => {}
            }
        }
    }
    let mut out = Vec::new();
    if let toml_edit::Item::Table(t) = root {
        table(t, &mut out);
    }
    out
}

/// The library's *own* mismatch errors that name a key in their message must be located at a key of
/// that name (asserted only when the message has that form, so a change of wording switches the check
/// off instead of raising an alarm).
fn check_named_key_location(text: &str, root: &toml_edit::Item, e: &RouteErr, out: &mut RunOut, route: &str) {
    let (s, en) = match e.span {
        Some(x) => x,
        None => return,
    };
    let named: Option<String> = if let Some(rest) = e.message.strip_prefix("expected table key `") {
        rest.split("`, but was `").nth(1).and_then(|r| r.strip_suffix('`')).map(|k| k.to_string())
    } else if let Some(rest) = e.message.strip_prefix("unexpected keys in table: ") {
        rest.split(", available keys: ").next().and_then(|ks| ks.split(", ").next()).map(|k| k.to_string())
    } else {
        None
    };
    if let Some(k) = named {
        let spans: Vec<_> = all_key_spans(root).into_iter().filter(|(n, _)| *n == k).map(|(_, sp)| sp).collect();
        if spans.is_empty() {
            return;
        }
        out.stats.inc("oracle.named_key_location");
        if !spans.iter().any(|sp| sp.start == s && sp.end == en) {
            out.violate(
                "C15/3",
                format!("C15/named-key-not-located/route={route}"),
                format!("{route}: the error names the key {k:?} but is located at {s}..{en} = {:?}, not at a key of that name ({spans:?})\n rendered:\n{}\n--- text ---\n{text}", text.get(s..en), e.rendered),
            );
        }
    }
}

fn check_rendering(text: &str, e: &RouteErr, out: &mut RunOut, route: &str) {
    let (s, _) = match e.span {
        Some(x) => x,
        None => return,
    };
    if s >= text.len() {
        return; // end-of-input positions belong to the first sentence of C15
    }
    let line_start = text[..s].rfind('\n').map(|i| i + 1).unwrap_or(0);
    let l = 1 + text[..s].matches('\n').count();
    let c = 1 + text[line_start..s].chars().count();
    let content = text.split('\n').nth(l - 1).unwrap_or("");
    let lines: Vec<&str> = e.rendered.split('\n').collect();
    out.stats.inc("oracle.rendering");
    // the property fixes *what* is reported (line and column of the span start, in characters), not the
    // wording: the first rendered line must carry the two numbers in this order, some rendered line
    // must quote the document line, and the message must follow
    let nums: Vec<usize> = lines
        .first()
        .map(|l0| l0.split(|ch: char| !ch.is_ascii_digit()).filter(|x| !x.is_empty()).filter_map(|x| x.parse().ok()).collect())
        .unwrap_or_default();
    let quoted = content.trim_end_matches('\r');
    let mut ok = nums.windows(2).any(|w| w == [l, c]) && (quoted.is_empty() || lines.iter().skip(1).any(|x| x.trim_end_matches('\r').ends_with(quoted))) && e.rendered.contains(&e.message);
    // if the rendering draws carets under the quoted line, the first caret marks the reported column
    if ok && !quoted.is_empty() {
        if let Some(qi) = lines.iter().skip(1).position(|x| x.trim_end_matches('\r').ends_with(quoted)).map(|i| i + 1) {
            if let Some(caret_line) = lines.get(qi + 1) {
                if let Some(caret_byte) = caret_line.find('^') {
                    let ql = lines[qi].trim_end_matches('\r');
                    let content_start_chars = ql[..ql.len() - quoted.len()].chars().count();
                    let caret_chars = caret_line[..caret_byte].chars().count();
                    if caret_chars != content_start_chars + (c - 1) {
                        ok = false;
                    }
                }
            }
        }
    }
    if !ok {
        out.violate(
            "C15/4",
            format!("C15/rendering/route={route}"),
            format!("{route}: rendered error does not report line {l}, column {c} of the span start {s} (characters, not bytes) with the quoted line and message\n--- rendered ---\n{}\n--- text ---\n{text}", e.rendered),
        );
    }
    if text[line_start..s].chars().any(|ch| ch.len_utf8() > 1) {
        out.stats.inc("probe.multibyte_before_column");
    }
    if content.ends_with('\r') {
        out.stats.inc("probe.error_on_crlf_line");
    }
}

fn check_sink(e: &RouteErr, out: &mut RunOut, route: &str) {
    let mut probe = Sink::new(None);
    let r = catch_unwind(AssertUnwindSafe(|| write!(probe, "{}", e.obj)));
    if r.is_err() {
        out.violate("C15/6", format!("C15/panic/rendering/route={route}"), format!("{route}: rendering the error panicked\n message: {}", e.message));
        return;
    }
    let calls = probe.calls.min(64);
    for j in 0..calls {
        let mut sink = Sink::new(Some(j));
        let r = catch_unwind(AssertUnwindSafe(|| write!(sink, "{}", e.obj)));
        out.stats.inc("fault.F-SINK.fired");
        out.execs += 1;
        match r {
            Err(p) => {
                out.violate("C15/6", format!("C15/panic/rendering-into-failing-sink/route={route}"), format!("{route}: rendering the error into a sink that fails at write {j} panicked: {}", panic_msg(&p)));
                return;
            }
            Ok(res) => {
                out.stats.inc(if res.is_err() { "probe.fsink.error_propagated" } else { "probe.fsink.error_swallowed" });
                if probe.buf.starts_with(&sink.buf) {
                    out.stats.inc("probe.fsink.prefix_kept");
                }
            }
        }
    }
}

pub fn execute(sc: &Scenario, verbose: bool) -> RunOut {
    let mut out = RunOut::default();
    if sc.workload == "R" {
        crate::realfam::execute("C15", sc, verbose, &mut out);
        return out;
    }
    let ty = &sc.ty;
    let doc = sc.doc.as_ref().expect("C15 without document");
    let text = &doc.text;
    out.note(text);
    let parsed = catch_unwind(AssertUnwindSafe(|| toml_edit::ImDocument::parse(text.clone())));
    let im = match parsed {
        Err(p) => {
            out.violate("C15/1", "C15/panic/parse".into(), format!("parser panicked: {}", panic_msg(&p)));
            return out;
        }
        Ok(Err(_)) => {
            out.stats.inc("docgen_rejected");
            return out;
        }
        Ok(Ok(d)) => d,
    };
    out.stats.inc(&format!("workload.{}", sc.workload));
    let single: Option<Fault> = match sc.fault {
        FaultSpec::Vis(k, exit) => Some(Fault::Vis { k, exit }),
        FaultSpec::Seed(k, exit) => Some(Fault::Seed { k, exit }),
        _ => None,
    };
    enumerate_faults(text, im.as_item(), single, sc, verbose, &mut out, &|route, fault, keep| {
        let cx = Ctx::new(fault, keep);
        let rcfg = RCfg::plain();
        let r = catch_unwind(AssertUnwindSafe(|| run_route(route, text, ty, &rcfg, &cx).map(|v| format!("{v:?}"))));
        (r, cx)
    });
    out
}

pub type RouteRun<'a> = dyn Fn(&'static str, Fault, bool) -> (std::thread::Result<Result<String, RouteErr>>, Ctx) + 'a;

/// The enumeration itself, independent of who the reader is (stub peer or a real derived type).
pub fn enumerate_faults(text: &str, root: &toml_edit::Item, single: Option<Fault>, sc: &Scenario, verbose: bool, out: &mut RunOut, route_run: &RouteRun<'_>) {
    let mut rendered_seen: std::collections::HashSet<String> = std::collections::HashSet::new();
    for route in ROUTES {
        if !route_on(sc, route) {
            continue;
        }
        out.stats.inc(&format!("route.{}", route.split(':').next().unwrap_or(route)));
        let run = |fault: Fault, out: &mut RunOut, keep: bool| {
            let (r, cx) = route_run(route, fault, keep);
            out.absorb(&cx);
            if keep {
                out.log.push(format!("--- {route} fault={fault:?}"));
                for e in cx.log.borrow().iter() {
                    out.log.push(format!("  {} {:>2} {} {:?}", e.c, e.d, e.k, e.p));
                }
            }
            let fired = cx.fired.borrow().clone();
            (r, (cx.vis_count.get(), cx.seed_count.get()), fired)
        };
        let (r0, (n, m), _) = run(Fault::None, out, false);
        let r0 = match r0 {
            Ok(r) => r,
            Err(p) => {
                let m = panic_msg(&p);
                if m.contains("HARNESS") {
                    out.harness_error = Some(m);
                    return;
                }
                out.violate("C15/1", format!("C15/panic/route={route}"), format!("{route} panicked without any fault: {m}\n--- text ---\n{text}"));
                continue;
            }
        };
        if let Err(e) = &r0 {
            if e.message.contains("HARNESS") {
                out.harness_error = Some(e.message.clone());
                return;
            }
            // a genuine mismatch between document and type: the library's own error; located too
            out.stats.inc("outcome.library_error_without_fault");
            if has_text(route) && !e.pre_peer {
                if let Some((s, en)) = e.span {
                    if !(s <= en && en <= text.len() && text.is_char_boundary(s) && text.is_char_boundary(en)) {
                        out.violate("C15/2", format!("C15/span-out-of-bounds/route={route}"), format!("{route}: error span {s}..{en} is not inside the document on character boundaries\n--- text ---\n{text}"));
                    } else {
                        check_rendering(text, e, out, route);
                        check_named_key_location(text, root, e, out, route);
                    }
                }
                if rendered_seen.insert(e.rendered.clone()) {
                    check_sink(e, out, route);
                }
            }
        }
        let sample = |n: u32, lo: u32, out: &mut RunOut| -> Vec<u32> {
            if text.len() > 2048 && n > 48 {
                // long documents (each execution re-parses the text): the fault position is sampled —
                // the first 16, the last 16 and 16 evenly spaced — instead of enumerated
                out.stats.inc("probe.positions_sampled_for_long_document");
                let n = n.min(4096);
                let mut ks: Vec<u32> = (lo..16).chain(n - 16..n).chain((1..17).map(|i| i * (n / 17))).collect();
                ks.sort();
                ks.dedup();
                ks
            } else {
                (lo..n.min(MAX_CALLBACKS)).collect()
            }
        };
        let positions: Vec<Fault> = match single {
            Some(p) => vec![p],
            None => {
                let mut v: Vec<Fault> = sample(n, 0, out).into_iter().flat_map(|k| [Fault::Vis { k, exit: false }, Fault::Vis { k, exit: true }]).collect();
                // F-SEED: seed 0 is the root (`T::deserialize` of the whole document, which the library
                // never sees fail) and is skipped
                v.extend(sample(m, 1, out).into_iter().flat_map(|k| [Fault::Seed { k, exit: false }, Fault::Seed { k, exit: true }]));
                v
            }
        };
        for fault in positions {
            let (k, exit, is_seed) = match fault {
                Fault::Vis { k, exit } => (k, exit, false),
                Fault::Seed { k, exit } => (k, exit, true),
                _ => continue,
            };
            let (r, _, fired) = run(fault, out, verbose && single.is_some());
            let fired = match fired {
                Some(f) => f,
                None => continue, // an exit fault on a callback that fails by itself does not fire
            };
            if is_seed && fired.path.is_empty() && !fired.in_key {
                continue; // root-level seed (only possible when replaying k = 0)
            }
            out.stats.inc(if is_seed { "fault.F-SEED.fired" } else { "fault.F-VIS.fired" });
            out.stats.inc(&format!("faultsite.{}.{}.{}", if has_text(route) { "text" } else { "notext" }, fired.cb, if exit { "exit" } else { "entry" }));
            if fired.in_key {
                out.stats.inc("probe.fault_in_key_callback");
            }
            if fired.cb == "visit_map" && exit {
                out.stats.inc("probe.fault_at_exit_of_visit_map");
            }
            let e = match r {
                Err(p) => {
                    let m = panic_msg(&p);
                    out.violate("C15/1", format!("C15/panic/route={route}"), format!("{route} panicked when the reader failed at callback {k} ({}, {}): {m}\n--- text ---\n{text}", fired.cb, if exit { "exit" } else { "entry" }));
                    continue;
                }
                Ok(Ok(v)) => {
                    out.violate(
                        "C15/1",
                        format!("C15/fault-swallowed/route={route}"),
                        format!("{route} returned Ok({v:?}) although the reader failed at callback {k} ({} {})\n--- text ---\n{text}", fired.cb, if exit { "exit" } else { "entry" }),
                    );
                    continue;
                }
                Ok(Err(e)) => e,
            };
            out.note(&e.rendered);
            if e.message.is_empty() {
                out.violate("C15/1", format!("C15/empty-message/route={route}"), format!("{route}: error with an empty message\n--- text ---\n{text}"));
            }
            let attributable = e.message.contains(&format!("injected@{k}"));
            if !attributable {
                out.stats.inc("probe.foreign_error");
            }
            // the reader's position is only known when every key on its path was seen as text by the
            // interposer; otherwise nothing about the location can be asserted (counted)
            let path_known = !fired.path.iter().any(|s| matches!(s, Seg::Key(k) if k == "<unknown-key>"));
            if !path_known {
                out.stats.inc("probe.reader_path_unknown_location_not_asserted");
            }
            let where_ = || format!("callback {k} = {} ({}) at path {:?}{}", fired.cb, if exit { "exit" } else { "entry" }, fired.path, if fired.in_key { " [key position]" } else { "" });
            if has_text(route) {
                // clause 2
                let (s, en) = match e.span {
                    Some(x) => x,
                    None => {
                        if attributable {
                            out.violate(
                                "C15/2",
                                format!("C15/no-span/route={route}"),
                                format!("{route}: the source text is available but the error carries no span; reader failed at {}\n rendered: {:?}\n--- text ---\n{text}", where_(), e.rendered),
                            );
                        }
                        continue;
                    }
                };
                if !(s <= en && en <= text.len() && text.is_char_boundary(s) && text.is_char_boundary(en)) {
                    out.violate("C15/2", format!("C15/span-out-of-bounds/route={route}"), format!("{route}: error span {s}..{en} is not inside the document on character boundaries\n--- text ---\n{text}"));
                    continue;
                }
                // clause 3
                if attributable && path_known {
                    out.stats.inc("oracle.location");
                    // a table the generator wrote with its own [header] has a span (C14's mechanism): an
                    // error raised for it must carry that span, not the fallback through its key
                    if let Some(doc) = &sc.doc {
                        let (npath, _, _) = to_path(&fired.path);
                        if !fired.in_key && doc.headers.iter().any(|(p, _)| *p == npath) && resolve(root, &npath).map(|n| n.span().is_none()).unwrap_or(false) {
                            out.violate(
                                "C15/3",
                                format!("C15/offending-table-has-no-span/route={route}"),
                                format!("{route}: reader failed at {}; that table was written with its own header but reports no span, so the error is located at {s}..{en} = {:?} instead of the table\n--- text ---\n{text}", where_(), text.get(s..en)),
                            );
                        }
                    }
                    let allowed = allowed_spans(root, &fired);
                    if !allowed.is_empty() && !allowed.iter().any(|a| a.start == s && a.end == en) {
                        let kind = if fired.in_key { "key" } else { fired.cb };
                        out.violate(
                            "C15/3",
                            format!("C15/wrong-location/route={route}/at={kind}"),
                            format!(
                                "{route}: reader failed at {}; the error is located at {s}..{en} = {:?}, expected the offending value's span, one of {:?}\n rendered:\n{}\n--- text ---\n{text}",
                                where_(),
                                text.get(s..en),
                                allowed,
                                e.rendered
                            ),
                        );
                    }
                    if allowed.is_empty() {
                        out.stats.inc("probe.no_expected_location");
                    }
                }
                // clause 4
                check_rendering(text, &e, out, route);
            } else {
                // clause 5: no source text -> no span, key path in the message
                // (a value cloned out of a parsed document — R4v — legitimately keeps spans without text)
                if e.span.is_some() && *route != R4V {
                    out.violate("C15/5", format!("C15/stale-span/route={route}"), format!("{route} has no source text but the error carries span {:?}\n--- text ---\n{text}", e.span));
                }
                if attributable && path_known {
                    out.stats.inc("oracle.key_path");
                    let (_, keys, _) = to_path(&fired.path);
                    let want = if keys.is_empty() { format!("{}\n", e.message) } else { format!("{}\nin `{}`\n", e.message, keys.join(".")) };
                    // wording-tolerant: the message, and the exact key path (quoted) iff there is one
                    let tail = e.rendered.replacen(&e.message, "", 1);
                    // the path must appear as a whole (not as part of a longer path), however it is quoted
                    // ... and whether or not non-bare components are quoted: quote characters and
                    // backslashes are ignored on both sides
                    let unquote = |x: &str| x.chars().filter(|ch| !matches!(ch, '"' | '\'' | '`' | '\\')).collect::<String>();
                    let path = unquote(&keys.join("."));
                    let tail = unquote(&tail);
                    let is_key_char = |ch: char| ch.is_alphanumeric() || ch == '.' || ch == '_' || ch == '-';
                    let whole = |hay: &str| {
                        hay.match_indices(&path).any(|(i, _)| {
                            let before = hay[..i].chars().next_back();
                            let after = hay[i + path.len()..].chars().next();
                            !before.map(is_key_char).unwrap_or(false) && !after.map(is_key_char).unwrap_or(false)
                        })
                    };
                    // (keys with characters a renderer may escape are not compared: their spelling is free)
                    let plain = keys.iter().all(|k| k.chars().all(|ch| ch.is_ascii_alphanumeric() || matches!(ch, '_' | '-' | '.' | ' ')));
                    if !plain {
                        out.stats.inc("probe.key_path_not_compared_unusual_keys");
                    }
                    let ok = e.rendered.contains(&e.message) && (keys.is_empty() || !plain || whole(&tail));
                    if !ok {
                        out.violate(
                            "C15/5",
                            format!("C15/wrong-key-path/route={route}"),
                            format!("{route}: reader failed at {}; expected the rendered error to carry the key path {:?}\n rendered: {:?}\n expected: {want:?}\n--- text ---\n{text}", where_(), keys, e.rendered),
                        );
                    }
                }
            }
            // clause 6: F-SINK at every write of every distinct error
            if rendered_seen.insert(e.rendered.clone()) {
                check_sink(&e, out, route);
            }
        }
        // F-RES: the fault-free twin after the faulted runs is unaffected
        let (r1, _, _) = run(Fault::None, out, false);
        let same = match (&r0, &r1) {
            (Ok(a), Ok(Ok(b))) => a == b,
            (Err(a), Ok(Err(b))) => a.rendered == b.rendered,
            _ => false,
        };
        if !same {
            out.violate("C15/7", format!("C15/fault-free-twin-differs/route={route}"), format!("{route}: the fault-free run after the faulted runs differs from the one before"));
        }
    }
}
