//! Self tests of the simulator (DESIGN 2.3, 2.10):
//!  * stub fidelity — for a family of real `#[derive(Serialize, Deserialize)]` types covering every
//!    production of the type grammar, the seam trace of the real impl equals the seam trace of the
//!    writer / reader stub for the mirrored description, call for call;
//!  * determinism — the same runs executed in different processes, with different worker counts,
//!    in reverse order and under the address-perturbing allocator give the same digests.
//! A mismatch is a harness error (exit 2), never a VIOLATION.

use crate::reader::*;
use crate::seam::*;
use crate::types::*;
use crate::writer::*;
use serde::de::DeserializeSeed;
use serde::ser;
use serde::Serialize;
use serde::Deserialize;
use std::collections::BTreeMap;

// ---------------------------------------------------------------- a serializer that accepts everything

pub struct NullSer;
pub struct NullCompound;
#[derive(Debug)]
pub struct NullErr(String);
impl std::fmt::Display for NullErr {
    fn fmt(&self, f: &mut std::fmt::Formatter<'_>) -> std::fmt::Result {
        f.write_str(&self.0)
    }
}
impl std::error::Error for NullErr {}
impl ser::Error for NullErr {
    fn custom<T: std::fmt::Display>(m: T) -> Self {
        NullErr(m.to_string())
    }
}
macro_rules! null_scalar { ($($m:ident : $t:ty),*) => {$( fn $m(self, _: $t) -> Result<(), NullErr> { Ok(()) } )*}; }
impl ser::Serializer for NullSer {
    type Ok = ();
    type Error = NullErr;
    type SerializeSeq = NullCompound;
    type SerializeTuple = NullCompound;
    type SerializeTupleStruct = NullCompound;
    type SerializeTupleVariant = NullCompound;
    type SerializeMap = NullCompound;
    type SerializeStruct = NullCompound;
    type SerializeStructVariant = NullCompound;
    null_scalar! { serialize_bool: bool, serialize_i8: i8, serialize_i16: i16, serialize_i32: i32, serialize_i64: i64, serialize_i128: i128,
    serialize_u8: u8, serialize_u16: u16, serialize_u32: u32, serialize_u64: u64, serialize_u128: u128, serialize_f32: f32, serialize_f64: f64,
    serialize_char: char, serialize_str: &str, serialize_bytes: &[u8] }
    fn serialize_none(self) -> Result<(), NullErr> {
        Ok(())
    }
    fn serialize_some<T: ?Sized + Serialize>(self, v: &T) -> Result<(), NullErr> {
        v.serialize(NullSer)
    }
    fn serialize_unit(self) -> Result<(), NullErr> {
        Ok(())
    }
    fn serialize_unit_struct(self, _: &'static str) -> Result<(), NullErr> {
        Ok(())
    }
    fn serialize_unit_variant(self, _: &'static str, _: u32, _: &'static str) -> Result<(), NullErr> {
        Ok(())
    }
    fn serialize_newtype_struct<T: ?Sized + Serialize>(self, _: &'static str, v: &T) -> Result<(), NullErr> {
        v.serialize(NullSer)
    }
    fn serialize_newtype_variant<T: ?Sized + Serialize>(self, _: &'static str, _: u32, _: &'static str, v: &T) -> Result<(), NullErr> {
        v.serialize(NullSer)
    }
    fn serialize_seq(self, _: Option<usize>) -> Result<NullCompound, NullErr> {
        Ok(NullCompound)
    }
    fn serialize_tuple(self, _: usize) -> Result<NullCompound, NullErr> {
        Ok(NullCompound)
    }
    fn serialize_tuple_struct(self, _: &'static str, _: usize) -> Result<NullCompound, NullErr> {
        Ok(NullCompound)
    }
    fn serialize_tuple_variant(self, _: &'static str, _: u32, _: &'static str, _: usize) -> Result<NullCompound, NullErr> {
        Ok(NullCompound)
    }
    fn serialize_map(self, _: Option<usize>) -> Result<NullCompound, NullErr> {
        Ok(NullCompound)
    }
    fn serialize_struct(self, _: &'static str, _: usize) -> Result<NullCompound, NullErr> {
        Ok(NullCompound)
    }
    fn serialize_struct_variant(self, _: &'static str, _: u32, _: &'static str, _: usize) -> Result<NullCompound, NullErr> {
        Ok(NullCompound)
    }
}
impl ser::SerializeSeq for NullCompound {
    type Ok = ();
    type Error = NullErr;
    fn serialize_element<T: ?Sized + Serialize>(&mut self, v: &T) -> Result<(), NullErr> {
        v.serialize(NullSer)
    }
    fn end(self) -> Result<(), NullErr> {
        Ok(())
    }
}
impl ser::SerializeTuple for NullCompound {
    type Ok = ();
    type Error = NullErr;
    fn serialize_element<T: ?Sized + Serialize>(&mut self, v: &T) -> Result<(), NullErr> {
        v.serialize(NullSer)
    }
    fn end(self) -> Result<(), NullErr> {
        Ok(())
    }
}
impl ser::SerializeTupleStruct for NullCompound {
    type Ok = ();
    type Error = NullErr;
    fn serialize_field<T: ?Sized + Serialize>(&mut self, v: &T) -> Result<(), NullErr> {
        v.serialize(NullSer)
    }
    fn end(self) -> Result<(), NullErr> {
        Ok(())
    }
}
impl ser::SerializeTupleVariant for NullCompound {
    type Ok = ();
    type Error = NullErr;
    fn serialize_field<T: ?Sized + Serialize>(&mut self, v: &T) -> Result<(), NullErr> {
        v.serialize(NullSer)
    }
    fn end(self) -> Result<(), NullErr> {
        Ok(())
    }
}
impl ser::SerializeMap for NullCompound {
    type Ok = ();
    type Error = NullErr;
    fn serialize_key<T: ?Sized + Serialize>(&mut self, v: &T) -> Result<(), NullErr> {
        v.serialize(NullSer)
    }
    fn serialize_value<T: ?Sized + Serialize>(&mut self, v: &T) -> Result<(), NullErr> {
        v.serialize(NullSer)
    }
    fn end(self) -> Result<(), NullErr> {
        Ok(())
    }
}
impl ser::SerializeStruct for NullCompound {
    type Ok = ();
    type Error = NullErr;
    fn serialize_field<T: ?Sized + Serialize>(&mut self, _: &'static str, v: &T) -> Result<(), NullErr> {
        v.serialize(NullSer)
    }
    fn end(self) -> Result<(), NullErr> {
        Ok(())
    }
}
impl ser::SerializeStructVariant for NullCompound {
    type Ok = ();
    type Error = NullErr;
    fn serialize_field<T: ?Sized + Serialize>(&mut self, _: &'static str, v: &T) -> Result<(), NullErr> {
        v.serialize(NullSer)
    }
    fn end(self) -> Result<(), NullErr> {
        Ok(())
    }
}

fn trace_of<T: Serialize + ?Sized>(v: &T) -> Vec<String> {
    let cx = Ctx::new(Fault::None, true);
    let _ = PVal { v, cx: &cx }.serialize(NullSer);
    let l = cx.log.borrow();
    l.iter().map(|e| format!("{} {} {} {:?}", e.c, e.d, e.k, e.p)).collect()
}

// ---------------------------------------------------------------- the real family

#[derive(Serialize, Deserialize, Debug, PartialEq, Clone)]
struct Prims {
    a: bool,
    b: i8,
    c: i16,
    d: i32,
    e: i64,
    f: u8,
    g: u16,
    h: u32,
    i: u64,
    j: f32,
    k: f64,
    l: char,
    m: String,
}
#[derive(Serialize, Deserialize, Debug, PartialEq, Clone)]
struct Inner {
    x: i32,
    y: Option<String>,
}
#[derive(Serialize, Deserialize, Debug, PartialEq, Clone)]
struct NewT(i32);
#[derive(Serialize, Deserialize, Debug, PartialEq, Clone)]
struct TupS(i32, String);
#[derive(Serialize, Deserialize, Debug, PartialEq, Clone)]
struct Unitish;
#[derive(Serialize, Deserialize, Debug, PartialEq, Clone)]
enum En {
    Unit,
    New(i32),
    Tup(i32, String),
    St { x: i32, y: Option<String> },
}
#[derive(Serialize, Deserialize, Debug, PartialEq, Eq, PartialOrd, Ord, Clone)]
enum KeyE {
    A,
    #[serde(rename = "b c")]
    B,
}
#[derive(Serialize, Deserialize, Debug, PartialEq, Eq, PartialOrd, Ord, Clone)]
struct KeyN(String);
#[derive(Serialize, Deserialize, Debug, PartialEq, Clone)]
struct Composite {
    o: Option<i32>,
    p: Option<String>,
    q: Vec<i64>,
    r: (i32, String),
    t: BTreeMap<String, i32>,
    n: NewT,
    ts: TupS,
    inner: Inner,
    vi: Vec<Inner>,
    #[serde(rename = "odd key")]
    odd: i32,
}
#[derive(Serialize, Deserialize, Debug, PartialEq, Clone)]
struct Enums {
    e1: En,
    e2: En,
    e3: En,
    e4: En,
    v: Vec<En>,
    ke: BTreeMap<KeyE, i32>,
    kn: BTreeMap<KeyN, bool>,
}
#[derive(Serialize, Deserialize, Debug, PartialEq, Clone)]
struct Dates {
    dt: toml::value::Datetime,
    d: toml::value::Date,
    t: toml::value::Time,
    any: toml::Value,
}
#[derive(Serialize, Deserialize, Debug, PartialEq, Clone)]
struct Odd {
    u: (),
    us: Unitish,
    oo: Option<Option<i32>>,
    big: i128,
    ubig: u128,
}
#[derive(Deserialize, Debug, PartialEq, Clone)]
struct Spans {
    a: toml::Spanned<i32>,
    b: toml::Spanned<String>,
    t: toml::Spanned<Inner>,
    m: BTreeMap<toml::Spanned<String>, toml::Spanned<bool>>,
    o: Option<toml::Spanned<i32>>,
    kn: BTreeMap<toml::Spanned<KeyN>, bool>,
    ke: BTreeMap<toml::Spanned<KeyE>, i32>,
}

fn st(name: &str, fs: Vec<(&str, Ty)>) -> Ty {
    Ty::Struct(name.into(), fs.into_iter().map(|(f, t)| (f.to_string(), t)).collect())
}
fn opt(t: Ty) -> Ty {
    Ty::Option(Box::new(t))
}
fn seq(t: Ty) -> Ty {
    Ty::Seq(Box::new(t))
}
fn sp(t: Ty) -> Ty {
    Ty::Spanned(Box::new(t))
}

fn ty_inner() -> Ty {
    st("Inner", vec![("x", Ty::I32), ("y", opt(Ty::Str))])
}
fn ty_en() -> Ty {
    Ty::Enum(
        "En".into(),
        vec![
            ("Unit".into(), VarTy::Unit),
            ("New".into(), VarTy::Newtype(Box::new(Ty::I32))),
            ("Tup".into(), VarTy::Tuple(vec![Ty::I32, Ty::Str])),
            ("St".into(), VarTy::Struct(vec![("x".into(), Ty::I32), ("y".into(), opt(Ty::Str))])),
        ],
    )
}
fn v_int(i: i128) -> Val {
    Val::Int(i)
}
fn v_str(s: &str) -> Val {
    Val::Str(s.into())
}

struct Case {
    name: &'static str,
    ty: Ty,
    val: Option<Val>,
    real_ser: Option<Vec<String>>,
    /// documents to read, and the real type's (trace, outcome-trace) for each
    docs: Vec<String>,
    real_de: Box<dyn Fn(&str) -> (Vec<String>, Result<Vec<String>, String>)>,
}

fn de_real<T: for<'de> Deserialize<'de> + Serialize>(text: &str) -> (Vec<String>, Result<Vec<String>, String>) {
    let cx = Ctx::new(Fault::None, true);
    let r = PSeed { s: std::marker::PhantomData::<T>, cx: &cx }.deserialize(toml::de::Deserializer::new(text));
    let l: Vec<String> = cx.log.borrow().iter().map(|e| format!("{} {} {} {:?}", e.c, e.d, e.k, e.p)).collect();
    (l, r.map(|v| trace_of(&v)).map_err(|e| e.to_string()))
}
fn de_real_noser<T: for<'de> Deserialize<'de> + std::fmt::Debug>(text: &str) -> (Vec<String>, Result<Vec<String>, String>) {
    let cx = Ctx::new(Fault::None, true);
    let r = PSeed { s: std::marker::PhantomData::<T>, cx: &cx }.deserialize(toml::de::Deserializer::new(text));
    let l: Vec<String> = cx.log.borrow().iter().map(|e| format!("{} {} {} {:?}", e.c, e.d, e.k, e.p)).collect();
    (l, r.map(|v| vec![format!("{v:?}")]).map_err(|e| e.to_string()))
}

fn cases() -> Vec<Case> {
    let mut out = Vec::new();
    // 1 primitives
    let prims = Prims { a: true, b: -8, c: -16, d: -32, e: -64, f: 8, g: 16, h: 32, i: 64, j: 1.5, k: -2.25, l: 'é', m: "s\n\"".into() };
    out.push(Case {
        name: "Prims",
        ty: st(
            "Prims",
            vec![("a", Ty::Bool), ("b", Ty::I8), ("c", Ty::I16), ("d", Ty::I32), ("e", Ty::I64), ("f", Ty::U8), ("g", Ty::U16), ("h", Ty::U32), ("i", Ty::U64), ("j", Ty::F32), ("k", Ty::F64), ("l", Ty::Char), ("m", Ty::Str)],
        ),
        val: Some(Val::Struct(vec![
            Val::Bool(true),
            v_int(-8),
            v_int(-16),
            v_int(-32),
            v_int(-64),
            v_int(8),
            v_int(16),
            v_int(32),
            v_int(64),
            Val::F32(1.5f32.to_bits()),
            Val::F64((-2.25f64).to_bits()),
            Val::Char('é'),
            v_str("s\n\""),
        ])),
        real_ser: Some(trace_of(&prims)),
        docs: vec![
            toml::to_string(&prims).unwrap(),
            "a = true\nb = 300\n".into(),
            "a = 1\n".into(),
            "a=true\nb=1\nc=1\nd=1\ne=1\nf=1\ng=1\nh=1\ni=1\nj=1\nk=2\nl='xy'\nm='z'\n".into(),
            "a=true\nb=1\nc=1\nd=1\ne=1\nf=-1\ng=1\nh=1\ni=1\nj=1.0\nk=2.0\nl='x'\nm='z'\nextra = { q = 1 }\n".into(),
        ],
        real_de: Box::new(de_real::<Prims>),
    });
    // 2 composite
    let comp = Composite {
        o: Some(1),
        p: None,
        q: vec![1, 2, 3],
        r: (7, "r".into()),
        t: [("k1".to_string(), 1), ("k 2".to_string(), 2)].into_iter().collect(),
        n: NewT(5),
        ts: TupS(6, "ts".into()),
        inner: Inner { x: 1, y: Some("y".into()) },
        vi: vec![Inner { x: 2, y: None }, Inner { x: 3, y: Some("z".into()) }],
        odd: 9,
    };
    out.push(Case {
        name: "Composite",
        ty: st(
            "Composite",
            vec![
                ("o", opt(Ty::I32)),
                ("p", opt(Ty::Str)),
                ("q", seq(Ty::I64)),
                ("r", Ty::Tuple(vec![Ty::I32, Ty::Str])),
                ("t", Ty::Map(KeyTy::Str, Box::new(Ty::I32))),
                ("n", Ty::Newtype("NewT".into(), Box::new(Ty::I32))),
                ("ts", Ty::TupleStruct("TupS".into(), vec![Ty::I32, Ty::Str])),
                ("inner", ty_inner()),
                ("vi", seq(ty_inner())),
                ("odd key", Ty::I32),
            ],
        ),
        val: Some(Val::Struct(vec![
            Val::Some(Box::new(v_int(1))),
            Val::None,
            Val::Seq(vec![v_int(1), v_int(2), v_int(3)]),
            Val::Seq(vec![v_int(7), v_str("r")]),
            Val::Map(vec![(v_str("k 2"), v_int(2)), (v_str("k1"), v_int(1))]),
            v_int(5),
            Val::Seq(vec![v_int(6), v_str("ts")]),
            Val::Struct(vec![v_int(1), Val::Some(Box::new(v_str("y")))]),
            Val::Seq(vec![Val::Struct(vec![v_int(2), Val::None]), Val::Struct(vec![v_int(3), Val::Some(Box::new(v_str("z")))])]),
            v_int(9),
        ])),
        real_ser: Some(trace_of(&comp)),
        docs: vec![
            toml::to_string(&comp).unwrap(),
            toml::to_string_pretty(&comp).unwrap(),
            "q = [1]\nr = [1]\n".into(),
            "q = []\nr = [1, 'a', 3]\nt = {}\nn = 1\nts = [1]\n".into(),
            "q = 'no'\n".into(),
            "q = []\nr = [1,'a']\nt = { a = 'x' }\n".into(),
            "q = []\nr = [1,'a']\nt = {}\nn = 1\nts = [1,'b']\ninner = { x = 1, zz = 2 }\nvi = [{ x = 1 }, { y = 'q' }]\n".into(),
        ],
        real_de: Box::new(de_real::<Composite>),
    });
    // 3 enums and keys
    let enums = Enums {
        e1: En::Unit,
        e2: En::New(2),
        e3: En::Tup(3, "t".into()),
        e4: En::St { x: 4, y: None },
        v: vec![En::Unit, En::St { x: 1, y: Some("s".into()) }, En::Tup(1, "u".into()), En::New(9)],
        ke: [(KeyE::A, 1), (KeyE::B, 2)].into_iter().collect(),
        kn: [(KeyN("n1".into()), true)].into_iter().collect(),
    };
    let ve = |i: usize, p: Val| Val::Variant(i, Box::new(p));
    out.push(Case {
        name: "Enums",
        ty: st(
            "Enums",
            vec![
                ("e1", ty_en()),
                ("e2", ty_en()),
                ("e3", ty_en()),
                ("e4", ty_en()),
                ("v", seq(ty_en())),
                ("ke", Ty::Map(KeyTy::UnitVariant("KeyE".into(), vec!["A".into(), "b c".into()]), Box::new(Ty::I32))),
                ("kn", Ty::Map(KeyTy::NewtypeStr("KeyN".into()), Box::new(Ty::Bool))),
            ],
        ),
        val: Some(Val::Struct(vec![
            ve(0, Val::Unit),
            ve(1, v_int(2)),
            ve(2, Val::Seq(vec![v_int(3), v_str("t")])),
            ve(3, Val::Struct(vec![v_int(4), Val::None])),
            Val::Seq(vec![ve(0, Val::Unit), ve(3, Val::Struct(vec![v_int(1), Val::Some(Box::new(v_str("s")))])), ve(2, Val::Seq(vec![v_int(1), v_str("u")])), ve(1, v_int(9))]),
            Val::Map(vec![(ve(0, Val::Unit), v_int(1)), (ve(1, Val::Unit), v_int(2))]),
            Val::Map(vec![(v_str("n1"), Val::Bool(true))]),
        ])),
        real_ser: Some(trace_of(&enums)),
        docs: vec![
            toml::to_string(&enums).unwrap(),
            toml::to_string_pretty(&enums).unwrap(),
            "e1 = 'Nope'\n".into(),
            "e1 = 'New'\n".into(),
            "e1 = { Unit = {} }\ne2 = { New = 'x' }\n".into(),
            "e1 = 'Unit'\ne2 = { Tup = [1] }\n".into(),
            "e1 = 'Unit'\ne2 = { St = { x = 1, q = 2 } }\n".into(),
            "e1 = 'Unit'\ne2 = { A = 1, B = 2 }\n".into(),
            "e1 = 'Unit'\ne2 = {}\n".into(),
            "e1 = 'Unit'\ne2 = { New = 1 }\ne3 = { Tup = { 0 = 1, 1 = 'x' } }\ne4 = 'Unit'\nv = []\nke = { C = 1 }\nkn = {}\n".into(),
            "e1 = 'Unit'\ne2 = { New = 1 }\ne3 = 'Unit'\ne4 = 'Unit'\nv = ['Unit', 3]\nke = {}\nkn = {}\n".into(),
        ],
        real_de: Box::new(de_real::<Enums>),
    });
    // 4 date-times and toml::Value
    let dates = Dates {
        dt: "1979-05-27T07:32:00.5-07:00".parse().unwrap(),
        d: toml::value::Date { year: 1979, month: 5, day: 27 },
        t: toml::value::Time { hour: 7, minute: 32, second: 0, nanosecond: 0 },
        any: toml::Value::Array(vec![toml::Value::Integer(1), toml::Value::String("x".into())]),
    };
    out.push(Case {
        name: "Dates",
        ty: st("Dates", vec![("dt", Ty::Datetime), ("d", Ty::Date), ("t", Ty::Time), ("any", Ty::Any)]),
        val: Some(Val::Struct(vec![
            Val::Dt(Dt { date: Some((1979, 5, 27)), time: Some((7, 32, 0, 500_000_000)), offset: Some(Off::Min(-420)) }),
            Val::Dt(Dt { date: Some((1979, 5, 27)), time: None, offset: None }),
            Val::Dt(Dt { date: None, time: Some((7, 32, 0, 0)), offset: None }),
            Val::Any(Tree::Arr(vec![Tree::Int(1), Tree::Str("x".into())])),
        ])),
        real_ser: Some(trace_of(&dates)),
        docs: vec![
            toml::to_string(&dates).unwrap(),
            "dt = 1979-05-27\nd = 1979-05-27T07:32:00Z\n".into(),
            "dt = 'str'\n".into(),
            "dt = 07:32:00\nd = 1979-05-27\nt = 1979-05-27\n".into(),
            "dt = 1979-05-27T07:32:00Z\nd = 1979-05-27\nt = 07:32:00\nany = { a = [1, { b = 1979-05-27 }], c.d = 1.5 }\n".into(),
        ],
        real_de: Box::new(de_real::<Dates>),
    });
    // 5 the unsupported corner
    let odd = Odd { u: (), us: Unitish, oo: Some(None), big: -5, ubig: 5 };
    out.push(Case {
        name: "Odd",
        ty: st("Odd", vec![("u", Ty::Unit), ("us", Ty::UnitStruct("Unitish".into())), ("oo", opt(opt(Ty::I32))), ("big", Ty::I128), ("ubig", Ty::U128)]),
        val: Some(Val::Struct(vec![Val::Unit, Val::Unit, Val::Some(Box::new(Val::None)), v_int(-5), v_int(5)])),
        real_ser: Some(trace_of(&odd)),
        docs: vec!["u = 1\n".into(), "oo = 1\nbig = 1\nubig = 2\n".into(), "oo = 1\nbig = 1\nubig = 2\nu = {}\nus = []\n".into()],
        real_de: Box::new(de_real::<Odd>),
    });
    // 6 spans (reader only)
    out.push(Case {
        name: "Spans",
        ty: st(
            "Spans",
            vec![("a", sp(Ty::I32)), ("b", sp(Ty::Str)), ("t", sp(ty_inner())), ("m", Ty::Map(KeyTy::SpannedStr, Box::new(sp(Ty::Bool)))), ("o", opt(sp(Ty::I32))),
                ("kn", Ty::Map(KeyTy::SpannedKey(Box::new(KeyTy::NewtypeStr("KeyN".into()))), Box::new(Ty::Bool))),
                ("ke", Ty::Map(KeyTy::SpannedKey(Box::new(KeyTy::UnitVariant("KeyE".into(), vec!["A".into(), "b c".into()]))), Box::new(Ty::I32))),
            ],
        ),
        val: None,
        real_ser: None,
        docs: vec![
            "a = 1\nb = 'x'\nt = { x = 1 }\nm = {}\nkn = { n1 = true, 'n é' = false }\nke = { A = 1, 'b c' = 2 }\n".into(),
            "a = 1\nb = 'x'\nt = { x = 1 }\nm = {}\nke = { nope = 1 }\n".into(),
            "a = 1\nb = 'é'\nt = { x = 1 }\nm = { 'k é' = true, z = false }\no = 5\nkn = {}\nke = {}\n".into(),
            "a = 1\nb = 'x'\n[t]\nx = 1\ny = 'q'\n[m]\n[kn]\nk = true\n[ke]\n".into(),
            "a = 'no'\n".into(),
            "a = 1\nb = 2\n".into(),
            "a = 1\nb = 'x'\nt.x = 1\nm.k = true\nkn.'a b' = false\nke.A = 7\n".into(),
        ],
        real_de: Box::new(de_real_noser::<Spans>),
    });
    out
}

fn canon_debug_spans(v: &Val) -> String {
    // rendering of a Spans value comparable with `{:?}` of the real type is not needed: for the Spans
    // case only the seam traces and Ok/Err are compared
    format!("{}", matches!(v, Val::Struct(_)))
}

pub fn fidelity() -> Result<usize, String> {
    let mut checked = 0;
    for c in cases() {
        if let (Some(val), Some(real)) = (&c.val, &c.real_ser) {
            let wcfg = WCfg::new(0, 0);
            let stub = trace_of(&W { ty: &c.ty, v: val, cfg: &wcfg });
            if &stub != real {
                let i = stub.iter().zip(real.iter()).position(|(a, b)| a != b).unwrap_or(stub.len().min(real.len()));
                return Err(format!(
                    "writer stub trace differs from the real derive impl for {} at event {i}:\n  real: {:?}\n  stub: {:?}",
                    c.name,
                    real.get(i),
                    stub.get(i)
                ));
            }
            checked += 1;
        }
        for doc in &c.docs {
            let (real_trace, real_out) = (c.real_de)(doc);
            let cx = Ctx::new(Fault::None, true);
            let rcfg = RCfg::plain();
            let r = PSeed { s: R { ty: &c.ty, cfg: &rcfg }, cx: &cx }.deserialize(toml::de::Deserializer::new(doc));
            let stub_trace: Vec<String> = cx.log.borrow().iter().map(|e| format!("{} {} {} {:?}", e.c, e.d, e.k, e.p)).collect();
            if stub_trace != real_trace {
                let i = stub_trace.iter().zip(real_trace.iter()).position(|(a, b)| a != b).unwrap_or(stub_trace.len().min(real_trace.len()));
                return Err(format!(
                    "reader stub trace differs from the real derive impl for {} on {doc:?} at event {i}:\n  real: {:?}\n  stub: {:?}",
                    c.name,
                    real_trace.get(i),
                    stub_trace.get(i)
                ));
            }
            match (&r, &real_out) {
                (Ok(v), Ok(rt)) => {
                    if c.val.is_some() {
                        let wcfg = WCfg::new(0, 0);
                        let st = trace_of(&W { ty: &c.ty, v, cfg: &wcfg });
                        if &st != rt {
                            return Err(format!("reader stub result differs from the real type's for {} on {doc:?}\n real: {rt:?}\n stub: {st:?}", c.name));
                        }
                    } else {
                        let _ = canon_debug_spans(v);
                    }
                }
                (Err(e), Err(re)) => {
                    if &e.to_string() != re {
                        return Err(format!("reader stub error differs from the real type's for {} on {doc:?}\n real: {re}\n stub: {e}", c.name));
                    }
                }
                (a, b) => return Err(format!("reader stub outcome differs from the real type's for {} on {doc:?}: stub {:?} vs real {:?}", c.name, a.as_ref().map(|_| "Ok").map_err(|e| e.to_string()), b.as_ref().map(|_| "Ok"))),
            }
            checked += 1;
        }
    }
    Ok(checked)
}
