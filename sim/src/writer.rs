//! Writer peer W(T, v): a `Serialize` impl that issues exactly the calls `serde_derive` (and
//! serde's std impls) would issue for a value `v` of type `T`. Legal-but-unusual choices (H1–H4)
//! are switched per node by `WCfg`.

use crate::types::*;
use serde::ser::{Error as _, Serialize, SerializeMap, SerializeSeq, SerializeStruct, SerializeStructVariant, SerializeTuple, SerializeTupleStruct, SerializeTupleVariant, Serializer};
use std::cell::Cell;

pub const H1_NOLEN: u32 = 1;
pub const H2_SPLIT_ENTRY: u32 = 2;
pub const H3_SKIP_FIELD: u32 = 4;
pub const H4_COLLECT_STR: u32 = 8;
/// H5b: a `Vec<u8>` handed over with `serialize_bytes` (what `serde_bytes` / a hand-written impl does)
pub const H5_BYTES: u32 = 16;
/// H1b: an *inexact* length hint (the hint is only a hint: iterators report lower bounds, hand-written
/// impls count before filtering): off by one, or 0 for a non-empty container
pub const H6_INEXACT_LEN: u32 = 32;
/// H7: a struct written through `serialize_map` with its field names as string keys (what
/// `#[serde(flatten)]` and many hand-written impls do), entries whole or split into key + value
pub const H7_STRUCT_AS_MAP: u32 = 64;
/// H8: a (non-root) struct written positionally through `serialize_tuple` (a hand-written compact
/// form; `derive(Deserialize)` reads it back through `visit_seq`). Changes the text's shape, so it is
/// only used where no reference tree is compared (C13).
pub const H8_STRUCT_AS_TUPLE: u32 = 128;

#[derive(Debug)]
pub struct WCfg {
    pub hmask: u32,
    pub hseed: u64,
    ctr: Cell<u64>,
    /// per flag: how many times the unusual choice was actually taken
    pub used: [Cell<u32>; 8],
    /// structs seen so far (the first one may be the document root)
    structs_seen: Cell<u32>,
}

impl WCfg {
    pub fn new(hmask: u32, hseed: u64) -> Self {
        WCfg { hmask, hseed, ctr: Cell::new(0), used: Default::default(), structs_seen: Cell::new(0) }
    }
    pub fn reset(&self) {
        self.ctr.set(0);
        self.structs_seen.set(0);
    }
    /// an inexact hint for a container of `n` elements (H1b), or the exact one
    fn hint(&self, n: usize) -> usize {
        if self.flag(H6_INEXACT_LEN) {
            let c = self.ctr.get();
            match crate::rng::mix(&[self.hseed, c, 77]) % 3 {
                0 => n + 1,
                1 => n.saturating_sub(1),
                _ => 0,
            }
        } else {
            n
        }
    }
    fn flag(&self, bit: u32) -> bool {
        if self.hmask & bit == 0 {
            return false;
        }
        let c = self.ctr.get();
        self.ctr.set(c + 1);
        let on = crate::rng::mix(&[self.hseed, c, bit as u64]) & 1 == 1;
        if on {
            let i = bit.trailing_zeros() as usize;
            self.used[i].set(self.used[i].get() + 1);
        }
        on
    }
}

pub struct W<'a> {
    pub ty: &'a Ty,
    pub v: &'a Val,
    pub cfg: &'a WCfg,
}

/// A value as handed to a serializer entry point: the writer's choices restart, so that every
/// serialization of the same value makes the same choices (C13 serializes one value many times).
pub struct WTop<'a>(pub W<'a>);
impl Serialize for WTop<'_> {
    fn serialize<S: Serializer>(&self, s: S) -> Result<S::Ok, S::Error> {
        self.0.cfg.reset();
        self.0.serialize(s)
    }
}

struct WKey<'a> {
    ty: &'a KeyTy,
    v: &'a Val,
    cfg: &'a WCfg,
}

impl Serialize for WKey<'_> {
    fn serialize<S: Serializer>(&self, s: S) -> Result<S::Ok, S::Error> {
        match (self.ty, self.v) {
            (KeyTy::NewtypeSpanned(name), Val::Spanned(_, _, x)) => WKey { ty: &KeyTy::NewtypeStr(name.clone()), v: x, cfg: self.cfg }.serialize(s),
            (KeyTy::NewtypeSpanned(name), x @ Val::Str(_)) => WKey { ty: &KeyTy::NewtypeStr(name.clone()), v: x, cfg: self.cfg }.serialize(s),
            (KeyTy::SpannedKey(k), Val::Spanned(_, _, x)) => WKey { ty: k, v: x, cfg: self.cfg }.serialize(s),
            (KeyTy::SpannedKey(k), x) => WKey { ty: k, v: x, cfg: self.cfg }.serialize(s),
            (KeyTy::SpannedStr, Val::Spanned(_, _, x)) => WKey { ty: &KeyTy::Str, v: x, cfg: self.cfg }.serialize(s),
            (KeyTy::Str, Val::Str(x)) | (KeyTy::SpannedStr, Val::Str(x)) => {
                if self.cfg.flag(H4_COLLECT_STR) {
                    s.collect_str(x)
                } else {
                    s.serialize_str(x)
                }
            }
            (KeyTy::UnitVariant(name, vars), Val::Variant(i, _)) => s.serialize_unit_variant(intern(name), *i as u32, intern(&vars[*i])),
            (KeyTy::NewtypeStr(name), Val::Str(x)) => s.serialize_newtype_struct(intern(name), x.as_str()),
            (KeyTy::I64, Val::Int(i)) | (KeyTy::SpannedI64, Val::Int(i)) => s.serialize_i64(*i as i64),
            (KeyTy::Bool, Val::Bool(b)) => s.serialize_bool(*b),
            (KeyTy::Char, Val::Char(c)) => s.serialize_char(*c),
            (t, v) => Err(S::Error::custom(format!("HARNESS: key type/value mismatch {t:?} / {v:?}"))),
        }
    }
}

impl Serialize for W<'_> {
    fn serialize<S: Serializer>(&self, s: S) -> Result<S::Ok, S::Error> {
        let cfg = self.cfg;
        let w = |ty, v| W { ty, v, cfg };
        match (self.ty, self.v) {
            (Ty::Bool, Val::Bool(b)) => s.serialize_bool(*b),
            (Ty::I8, Val::Int(i)) => s.serialize_i8(*i as i8),
            (Ty::I16, Val::Int(i)) => s.serialize_i16(*i as i16),
            (Ty::I32, Val::Int(i)) => s.serialize_i32(*i as i32),
            (Ty::I64, Val::Int(i)) => s.serialize_i64(*i as i64),
            (Ty::U8, Val::Int(i)) => s.serialize_u8(*i as u8),
            (Ty::U16, Val::Int(i)) => s.serialize_u16(*i as u16),
            (Ty::U32, Val::Int(i)) => s.serialize_u32(*i as u32),
            (Ty::U64, Val::Int(i)) => s.serialize_u64(*i as u64),
            (Ty::I128, Val::Int(i)) => s.serialize_i128(*i),
            (Ty::U128, Val::Int(i)) => s.serialize_u128(*i as u128),
            (Ty::F32, Val::F32(b)) => s.serialize_f32(f32::from_bits(*b)),
            (Ty::F64, Val::F64(b)) => s.serialize_f64(f64::from_bits(*b)),
            (Ty::Char, Val::Char(c)) => s.serialize_char(*c),
            (Ty::Str, Val::Str(x)) => {
                if cfg.flag(H4_COLLECT_STR) {
                    s.collect_str(x)
                } else {
                    s.serialize_str(x)
                }
            }
            (Ty::Datetime, Val::Dt(d)) => d.to_real().serialize(s),
            (Ty::Date, Val::Dt(d)) => {
                let (year, month, day) = d.date.expect("HARNESS: Date without date");
                toml_datetime::Date { year, month, day }.serialize(s)
            }
            (Ty::Time, Val::Dt(d)) => {
                let (hour, minute, second, nanosecond) = d.time.expect("HARNESS: Time without time");
                toml_datetime::Time { hour, minute, second, nanosecond }.serialize(s)
            }
            (Ty::Option(_), Val::None) => s.serialize_none(),
            (Ty::Option(t), Val::Some(x)) => s.serialize_some(&w(t, x)),
            (Ty::Seq(t), Val::Seq(xs)) if **t == Ty::U8 && cfg.flag(H5_BYTES) => {
                let bytes: Vec<u8> = xs.iter().map(|x| if let Val::Int(i) = x { *i as u8 } else { 0 }).collect();
                s.serialize_bytes(&bytes)
            }
            (Ty::Seq(t), Val::Seq(xs)) => {
                if cfg.hmask & (H1_NOLEN | H6_INEXACT_LEN) == 0 {
                    // what `impl Serialize for Vec<T>` does
                    return s.collect_seq(xs.iter().map(|x| w(t, x)));
                }
                let len = if cfg.flag(H1_NOLEN) { None } else { Some(cfg.hint(xs.len())) };
                let mut q = s.serialize_seq(len)?;
                for x in xs {
                    q.serialize_element(&w(t, x))?;
                }
                q.end()
            }
            (Ty::Tuple(ts), Val::Seq(xs)) => {
                let mut q = s.serialize_tuple(ts.len())?;
                for (t, x) in ts.iter().zip(xs) {
                    q.serialize_element(&w(t, x))?;
                }
                q.end()
            }
            (Ty::TupleStruct(name, ts), Val::Seq(xs)) => {
                let mut q = s.serialize_tuple_struct(intern(name), ts.len())?;
                for (t, x) in ts.iter().zip(xs) {
                    q.serialize_field(&w(t, x))?;
                }
                q.end()
            }
            (Ty::Map(kt, vt), Val::Map(kvs)) => {
                if cfg.hmask & (H1_NOLEN | H2_SPLIT_ENTRY | H6_INEXACT_LEN) == 0 {
                    // what `impl Serialize for BTreeMap<K, V>` does
                    return s.collect_map(kvs.iter().map(|(k, v)| (WKey { ty: kt, v: k, cfg }, w(vt, v))));
                }
                let len = if cfg.flag(H1_NOLEN) { None } else { Some(cfg.hint(kvs.len())) };
                let mut m = s.serialize_map(len)?;
                for (k, v) in kvs {
                    let wk = WKey { ty: kt, v: k, cfg };
                    if cfg.flag(H2_SPLIT_ENTRY) {
                        m.serialize_key(&wk)?;
                        m.serialize_value(&w(vt, v))?;
                    } else {
                        m.serialize_entry(&wk, &w(vt, v))?;
                    }
                }
                m.end()
            }
            (Ty::Struct(_, fs), Val::Struct(xs)) if { cfg.structs_seen.set(cfg.structs_seen.get() + 1); cfg.structs_seen.get() > 1 } && cfg.flag(H8_STRUCT_AS_TUPLE) => {
                let mut q = s.serialize_tuple(fs.len())?;
                for ((_, t), x) in fs.iter().zip(xs) {
                    q.serialize_element(&w(t, x))?;
                }
                q.end()
            }
            (Ty::Struct(_, fs), Val::Struct(xs)) if cfg.flag(H7_STRUCT_AS_MAP) => {
                let mut m = s.serialize_map(Some(fs.len()))?;
                for ((f, t), x) in fs.iter().zip(xs) {
                    if cfg.flag(H7_STRUCT_AS_MAP) {
                        m.serialize_key(f.as_str())?;
                        m.serialize_value(&w(t, x))?;
                    } else {
                        m.serialize_entry(f.as_str(), &w(t, x))?;
                    }
                }
                m.end()
            }
            (Ty::Struct(name, fs), Val::Struct(xs)) => {
                // H3: `#[serde(skip_serializing_if = "Option::is_none")]` on some None fields
                let skip: Vec<bool> = fs
                    .iter()
                    .zip(xs)
                    .map(|((_, t), x)| matches!((t, x), (Ty::Option(_), Val::None)) && cfg.flag(H3_SKIP_FIELD))
                    .collect();
                let len = cfg.hint(skip.iter().filter(|b| !**b).count());
                let mut st = s.serialize_struct(intern(name), len)?;
                for (((f, t), x), sk) in fs.iter().zip(xs).zip(&skip) {
                    if *sk {
                        st.skip_field(intern(f))?;
                    } else {
                        st.serialize_field(intern(f), &w(t, x))?;
                    }
                }
                st.end()
            }
            (Ty::Newtype(name, t), x) => s.serialize_newtype_struct(intern(name), &w(t, x)),
            (Ty::Enum(name, vars), Val::Variant(i, payload)) => {
                let (vname, vt) = &vars[*i];
                let (name, vname, idx) = (intern(name), intern(vname), *i as u32);
                match (vt, &**payload) {
                    (VarTy::Unit, _) => s.serialize_unit_variant(name, idx, vname),
                    (VarTy::Newtype(t), x) => s.serialize_newtype_variant(name, idx, vname, &w(t, x)),
                    (VarTy::Tuple(ts), Val::Seq(xs)) => {
                        let mut q = s.serialize_tuple_variant(name, idx, vname, ts.len())?;
                        for (t, x) in ts.iter().zip(xs) {
                            q.serialize_field(&w(t, x))?;
                        }
                        q.end()
                    }
                    (VarTy::Struct(fs), Val::Struct(xs)) => {
                        let skip: Vec<bool> = fs
                            .iter()
                            .zip(xs)
                            .map(|((_, t), x)| matches!((t, x), (Ty::Option(_), Val::None)) && cfg.flag(H3_SKIP_FIELD))
                            .collect();
                        let len = skip.iter().filter(|b| !**b).count();
                        let mut st = s.serialize_struct_variant(name, idx, vname, len)?;
                        for (((f, t), x), sk) in fs.iter().zip(xs).zip(&skip) {
                            if *sk {
                                st.skip_field(intern(f))?;
                            } else {
                                st.serialize_field(intern(f), &w(t, x))?;
                            }
                        }
                        st.end()
                    }
                    (vt, x) => Err(S::Error::custom(format!("HARNESS: variant type/value mismatch {vt:?} / {x:?}"))),
                }
            }
            (Ty::Unit, Val::Unit) => s.serialize_unit(),
            (Ty::UnitStruct(name), Val::Unit) => s.serialize_unit_struct(intern(name)),
            (Ty::Any, Val::Any(t)) => t.to_value().serialize(s),
            (Ty::Spanned(t), Val::Spanned(_, _, x)) => w(t, x).serialize(s),
            (Ty::Spanned(t), x) => w(t, x).serialize(s),
            (t, v) => Err(S::Error::custom(format!("HARNESS: type/value mismatch {t:?} / {v:?}"))),
        }
    }
}
