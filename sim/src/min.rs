//! Structural minimisation of explicit scenarios (no PRNG re-steering needed: a scenario is data).

use crate::common::*;
use crate::types::*;

fn default_val(ty: &Ty) -> Val {
    match ty {
        Ty::Bool => Val::Bool(false),
        t if t.is_int() => Val::Int(0),
        Ty::F32 => Val::F32(0),
        Ty::F64 => Val::F64(0),
        Ty::Char => Val::Char('a'),
        Ty::Str => Val::Str(String::new()),
        Ty::Datetime => Val::Dt(Dt { date: Some((1979, 5, 27)), time: Some((7, 32, 0, 0)), offset: Some(Off::Z) }),
        Ty::Date => Val::Dt(Dt { date: Some((1979, 5, 27)), time: None, offset: None }),
        Ty::Time => Val::Dt(Dt { date: None, time: Some((7, 32, 0, 0)), offset: None }),
        Ty::Option(_) => Val::None,
        Ty::Seq(_) => Val::Seq(vec![]),
        Ty::Tuple(ts) | Ty::TupleStruct(_, ts) => Val::Seq(ts.iter().map(default_val).collect()),
        Ty::Map(..) => Val::Map(vec![]),
        Ty::Struct(_, fs) => Val::Struct(fs.iter().map(|(_, t)| default_val(t)).collect()),
        Ty::Newtype(_, t) | Ty::Spanned(t) => default_val(t),
        Ty::Enum(_, vars) => Val::Variant(0, Box::new(default_payload(&vars[0].1))),
        Ty::Unit | Ty::UnitStruct(_) => Val::Unit,
        Ty::Any => Val::Any(Tree::Tab(vec![])),
        _ => unreachable!(),
    }
}
fn default_payload(vt: &VarTy) -> Val {
    match vt {
        VarTy::Unit => Val::Unit,
        VarTy::Newtype(t) => default_val(t),
        VarTy::Tuple(ts) => Val::Seq(ts.iter().map(default_val).collect()),
        VarTy::Struct(fs) => Val::Struct(fs.iter().map(|(_, t)| default_val(t)).collect()),
    }
}

/// Re-type a value after a type-level shrink. `None` = not expressible (candidate skipped).
pub fn coerce(old: &Ty, new: &Ty, v: &Val) -> Option<Val> {
    if old == new {
        return Some(v.clone());
    }
    Some(match (old, new, v) {
        (Ty::Option(o), Ty::Option(n), Val::Some(x)) => Val::Some(Box::new(coerce(o, n, x)?)),
        (Ty::Option(_), Ty::Option(_), Val::None) => Val::None,
        (Ty::Option(o), n, Val::Some(x)) => coerce(o, n, x)?,
        (Ty::Seq(o), Ty::Seq(n), Val::Seq(xs)) => Val::Seq(xs.iter().map(|x| coerce(o, n, x)).collect::<Option<Vec<_>>>()?),
        (Ty::Tuple(os), Ty::Tuple(ns), Val::Seq(xs)) | (Ty::TupleStruct(_, os), Ty::TupleStruct(_, ns), Val::Seq(xs)) if os.len() == ns.len() => {
            Val::Seq(os.iter().zip(ns).zip(xs).map(|((o, n), x)| coerce(o, n, x)).collect::<Option<Vec<_>>>()?)
        }
        (Ty::Map(ok, o), Ty::Map(nk, n), Val::Map(kvs)) if ok == nk => {
            Val::Map(kvs.iter().map(|(k, x)| coerce(o, n, x).map(|x| (k.clone(), x))).collect::<Option<Vec<_>>>()?)
        }
        (Ty::Struct(_, ofs), Ty::Struct(_, nfs), Val::Struct(xs)) => Val::Struct(coerce_fields(ofs, nfs, xs)?),
        (Ty::Newtype(_, o), Ty::Newtype(_, n), x) => coerce(o, n, x)?,
        (Ty::Newtype(_, o), n, x) => coerce(o, n, x)?,
        (Ty::Spanned(o), Ty::Spanned(n), x) => coerce(o, n, x)?,
        (Ty::Spanned(o), n, x) => coerce(o, n, x)?,
        (Ty::Enum(_, ovs), Ty::Enum(_, nvs), Val::Variant(i, p)) => {
            let (name, ovt) = &ovs[*i];
            let j = nvs.iter().position(|(n, _)| n == name)?;
            let nvt = &nvs[j].1;
            let np = match (ovt, nvt, &**p) {
                (VarTy::Unit, VarTy::Unit, _) => Val::Unit,
                (VarTy::Newtype(o), VarTy::Newtype(n), x) => coerce(o, n, x)?,
                (VarTy::Tuple(os), VarTy::Tuple(ns), Val::Seq(xs)) if os.len() == ns.len() => {
                    Val::Seq(os.iter().zip(ns).zip(xs).map(|((o, n), x)| coerce(o, n, x)).collect::<Option<Vec<_>>>()?)
                }
                (VarTy::Struct(ofs), VarTy::Struct(nfs), Val::Struct(xs)) => Val::Struct(coerce_fields(ofs, nfs, xs)?),
                _ => return None,
            };
            Val::Variant(j, Box::new(np))
        }
        // a subtree replaced by a leaf (or anything unrelated): fresh default
        (_, n, _) => default_val(n),
    })
}
fn coerce_fields(ofs: &[(String, Ty)], nfs: &[(String, Ty)], xs: &[Val]) -> Option<Vec<Val>> {
    let mut out = Vec::new();
    for (nf, nt) in nfs {
        match ofs.iter().position(|(of, _)| of == nf) {
            Some(i) => out.push(coerce(&ofs[i].1, nt, &xs[i])?),
            None => out.push(default_val(nt)),
        }
    }
    Some(out)
}

fn simpler_name(n: &str) -> Option<String> {
    if n.len() == 1 && n.is_ascii() && n.chars().all(|c| c.is_ascii_alphabetic()) {
        None
    } else {
        Some("k".to_string())
    }
}

/// Type-level shrink candidates (each strictly simpler).
pub fn ty_shrinks(ty: &Ty) -> Vec<Ty> {
    let mut out = Vec::new();
    // replace this node by a minimal leaf
    if !matches!(ty, Ty::Bool) && ty.count_nodes() > 1 {
        out.push(Ty::Bool);
    }
    match ty {
        Ty::Option(t) | Ty::Newtype(_, t) | Ty::Spanned(t) => {
            out.push((**t).clone());
            let wrap = |x: Ty| match ty {
                Ty::Option(_) => Ty::Option(Box::new(x)),
                Ty::Newtype(n, _) => Ty::Newtype(n.clone(), Box::new(x)),
                _ => Ty::Spanned(Box::new(x)),
            };
            out.extend(ty_shrinks(t).into_iter().map(wrap));
        }
        Ty::Seq(t) => out.extend(ty_shrinks(t).into_iter().map(|x| Ty::Seq(Box::new(x)))),
        Ty::Map(k, t) => {
            if *k != KeyTy::Str {
                out.push(Ty::Map(KeyTy::Str, t.clone()));
            }
            out.extend(ty_shrinks(t).into_iter().map(|x| Ty::Map(k.clone(), Box::new(x))));
        }
        Ty::Tuple(ts) | Ty::TupleStruct(_, ts) => {
            let mk = |v: Vec<Ty>| match ty {
                Ty::Tuple(_) => Ty::Tuple(v),
                Ty::TupleStruct(n, _) => Ty::TupleStruct(n.clone(), v),
                _ => unreachable!(),
            };
            for i in 0..ts.len() {
                for s in ty_shrinks(&ts[i]) {
                    let mut v = ts.clone();
                    v[i] = s;
                    out.push(mk(v));
                }
            }
        }
        Ty::Struct(n, fs) => {
            for i in 0..fs.len() {
                let mut v = fs.clone();
                v.remove(i);
                out.push(Ty::Struct(n.clone(), v));
            }
            for i in 0..fs.len() {
                for s in ty_shrinks(&fs[i].1) {
                    let mut v = fs.clone();
                    v[i].1 = s;
                    out.push(Ty::Struct(n.clone(), v));
                }
                if let Some(sn) = simpler_name(&fs[i].0) {
                    if !fs.iter().any(|(f, _)| *f == sn) {
                        let mut v = fs.clone();
                        v[i].0 = sn;
                        out.push(Ty::Struct(n.clone(), v));
                    }
                }
            }
        }
        Ty::Enum(n, vs) => {
            if vs.len() > 1 {
                for i in 0..vs.len() {
                    let mut v = vs.clone();
                    v.remove(i);
                    out.push(Ty::Enum(n.clone(), v));
                }
            }
            for i in 0..vs.len() {
                let subs: Vec<VarTy> = match &vs[i].1 {
                    VarTy::Unit => vec![],
                    VarTy::Newtype(t) => ty_shrinks(t).into_iter().map(|x| VarTy::Newtype(Box::new(x))).collect(),
                    VarTy::Tuple(ts) => {
                        let mut o = Vec::new();
                        for j in 0..ts.len() {
                            for s in ty_shrinks(&ts[j]) {
                                let mut v = ts.clone();
                                v[j] = s;
                                o.push(VarTy::Tuple(v));
                            }
                        }
                        o
                    }
                    VarTy::Struct(fs) => {
                        let mut o = Vec::new();
                        for j in 0..fs.len() {
                            let mut v = fs.clone();
                            v.remove(j);
                            o.push(VarTy::Struct(v));
                        }
                        for j in 0..fs.len() {
                            for s in ty_shrinks(&fs[j].1) {
                                let mut v = fs.clone();
                                v[j].1 = s;
                                o.push(VarTy::Struct(v));
                            }
                        }
                        o
                    }
                };
                for s in subs {
                    let mut v = vs.clone();
                    v[i].1 = s;
                    out.push(Ty::Enum(n.clone(), v));
                }
            }
        }
        _ => {}
    }
    out
}

fn tree_shrinks(t: &Tree) -> Vec<Tree> {
    let mut out = Vec::new();
    match t {
        Tree::Arr(a) if a.len() > 8 => {
            out.push(Tree::Arr(a[..a.len() / 2].to_vec()));
            out.push(Tree::Arr(a[a.len() / 2..].to_vec()));
        }
        Tree::Arr(a) => {
            for i in 0..a.len() {
                let mut v = a.clone();
                v.remove(i);
                out.push(Tree::Arr(v));
            }
            for i in 0..a.len() {
                for s in tree_shrinks(&a[i]) {
                    let mut v = a.clone();
                    v[i] = s;
                    out.push(Tree::Arr(v));
                }
            }
        }
        Tree::Tab(kvs) => {
            for i in 0..kvs.len() {
                let mut v = kvs.clone();
                v.remove(i);
                out.push(Tree::Tab(v));
            }
            for i in 0..kvs.len() {
                for s in tree_shrinks(&kvs[i].1) {
                    let mut v = kvs.clone();
                    v[i].1 = s;
                    out.push(Tree::Tab(v));
                }
            }
        }
        Tree::Str(s) if !s.is_empty() => out.push(Tree::Str(String::new())),
        Tree::Int(i) if *i != 0 => out.push(Tree::Int(0)),
        _ => {}
    }
    out
}

/// Value-level shrink candidates with the type fixed.
pub fn val_shrinks(ty: &Ty, v: &Val) -> Vec<Val> {
    let mut out = Vec::new();
    match (ty, v) {
        (_, Val::Int(i)) if *i != 0 => {
            out.push(Val::Int(0));
            out.push(Val::Int(i / 2));
        }
        (_, Val::F32(b)) if *b != 0 => out.push(Val::F32(0)),
        (_, Val::F64(b)) if *b != 0 => out.push(Val::F64(0)),
        (_, Val::Bool(true)) => out.push(Val::Bool(false)),
        (_, Val::Char(c)) if *c != 'a' => out.push(Val::Char('a')),
        (_, Val::Str(s)) if !s.is_empty() => {
            out.push(Val::Str(String::new()));
            let cs: Vec<char> = s.chars().collect();
            if cs.len() > 1 {
                out.push(Val::Str(cs[..cs.len() / 2].iter().collect()));
                out.push(Val::Str(cs[cs.len() / 2..].iter().collect()));
                for i in 0..cs.len().min(24) {
                    let mut c = cs.clone();
                    c.remove(i);
                    out.push(Val::Str(c.into_iter().collect()));
                }
            }
            if s != "a" {
                out.push(Val::Str("a".into()));
            }
        }
        (t @ (Ty::Datetime | Ty::Date | Ty::Time), Val::Dt(_)) => {
            let d = default_val(t);
            if d != *v {
                out.push(d);
            }
        }
        (Ty::Option(_), Val::Some(_)) => {
            out.push(Val::None);
            if let (Ty::Option(t), Val::Some(x)) = (ty, v) {
                out.extend(val_shrinks(t, x).into_iter().map(|s| Val::Some(Box::new(s))));
            }
        }
        (Ty::Seq(t), Val::Seq(xs)) => {
            // long sequences: halves first, then single removals / element shrinks at a bounded number of
            // positions (materialising every candidate of a 257 x 257 value would need gigabytes)
            if xs.len() > 8 {
                out.push(Val::Seq(xs[..xs.len() / 2].to_vec()));
                out.push(Val::Seq(xs[xs.len() / 2..].to_vec()));
                out.push(Val::Seq(xs[..xs.len() - 1].to_vec()));
                out.push(Val::Seq(xs[1..].to_vec()));
            }
            let idx: Vec<usize> = if xs.len() > 8 { (0..4).chain(xs.len() - 4..xs.len()).collect() } else { (0..xs.len()).collect() };
            if xs.len() <= 8 {
                for &i in &idx {
                    let mut c = xs.clone();
                    c.remove(i);
                    out.push(Val::Seq(c));
                }
            }
            for &i in idx.iter().take(if xs.len() > 8 { 2 } else { 8 }) {
                for s in val_shrinks(t, &xs[i]).into_iter().take(16) {
                    let mut c = xs.clone();
                    c[i] = s;
                    out.push(Val::Seq(c));
                }
            }
        }
        (Ty::Tuple(ts), Val::Seq(xs)) | (Ty::TupleStruct(_, ts), Val::Seq(xs)) => {
            for i in 0..xs.len() {
                for s in val_shrinks(&ts[i], &xs[i]) {
                    let mut c = xs.clone();
                    c[i] = s;
                    out.push(Val::Seq(c));
                }
            }
        }
        (Ty::Map(_, vt), Val::Map(kvs)) if kvs.len() > 8 => {
            out.push(Val::Map(kvs[..kvs.len() / 2].to_vec()));
            out.push(Val::Map(kvs[kvs.len() / 2..].to_vec()));
            out.push(Val::Map(kvs[..kvs.len() - 1].to_vec()));
            out.push(Val::Map(kvs[1..].to_vec()));
            for i in 0..2 {
                for s in val_shrinks(vt, &kvs[i].1).into_iter().take(16) {
                    let mut c = kvs.clone();
                    c[i].1 = s;
                    out.push(Val::Map(c));
                }
            }
        }
        (Ty::Map(_, vt), Val::Map(kvs)) => {
            for i in 0..kvs.len() {
                let mut c = kvs.clone();
                c.remove(i);
                out.push(Val::Map(c));
            }
            for i in 0..kvs.len() {
                for s in val_shrinks(vt, &kvs[i].1) {
                    let mut c = kvs.clone();
                    c[i].1 = s;
                    out.push(Val::Map(c));
                }
                if let Val::Str(k) = &kvs[i].0 {
                    if let Some(sn) = simpler_name(k) {
                        if !kvs.iter().any(|(kk, _)| *kk == Val::Str(sn.clone())) {
                            let mut c = kvs.clone();
                            c[i].0 = Val::Str(sn);
                            out.push(Val::Map(c));
                        }
                    }
                }
            }
        }
        (Ty::Struct(_, fs), Val::Struct(xs)) => {
            for i in 0..xs.len() {
                for s in val_shrinks(&fs[i].1, &xs[i]) {
                    let mut c = xs.clone();
                    c[i] = s;
                    out.push(Val::Struct(c));
                }
            }
        }
        (Ty::Newtype(_, t), x) | (Ty::Spanned(t), x) => out.extend(val_shrinks(t, x)),
        (Ty::Enum(_, vars), Val::Variant(i, p)) => {
            // try simpler variants
            for j in 0..vars.len() {
                if j != *i && matches!(vars[j].1, VarTy::Unit) {
                    out.push(Val::Variant(j, Box::new(Val::Unit)));
                }
            }
            let subs: Vec<Val> = match (&vars[*i].1, &**p) {
                (VarTy::Newtype(t), x) => val_shrinks(t, x),
                (VarTy::Tuple(ts), Val::Seq(xs)) => {
                    let mut o = Vec::new();
                    for k in 0..xs.len() {
                        for s in val_shrinks(&ts[k], &xs[k]) {
                            let mut c = xs.clone();
                            c[k] = s;
                            o.push(Val::Seq(c));
                        }
                    }
                    o
                }
                (VarTy::Struct(fs), Val::Struct(xs)) => {
                    let mut o = Vec::new();
                    for k in 0..xs.len() {
                        for s in val_shrinks(&fs[k].1, &xs[k]) {
                            let mut c = xs.clone();
                            c[k] = s;
                            o.push(Val::Struct(c));
                        }
                    }
                    o
                }
                _ => vec![],
            };
            out.extend(subs.into_iter().map(|s| Val::Variant(*i, Box::new(s))));
        }
        (Ty::Any, Val::Any(t)) => out.extend(tree_shrinks(t).into_iter().map(Val::Any)),
        _ => {}
    }
    out
}

/// All one-step shrink candidates of a scenario, most aggressive first.
pub fn shrinks(sc: &Scenario, names: &[&str]) -> Vec<Scenario> {
    let mut out = shrinks_uncapped(sc, names);
    out.truncate(1500);
    out
}

fn shrinks_uncapped(sc: &Scenario, names: &[&str]) -> Vec<Scenario> {
    let mut out = Vec::new();
    // restrict to one serializer / route
    if sc.only.len() != 1 {
        for n in names {
            if sc.wants(n) {
                let mut c = sc.clone();
                c.only = vec![n.to_string()];
                out.push(c);
            }
        }
    }
    if sc.whmask != 0 {
        let mut c = sc.clone();
        c.whmask = 0;
        out.push(c);
        for b in 0..6 {
            if sc.whmask & (1 << b) != 0 && sc.whmask != (1 << b) {
                let mut c = sc.clone();
                c.whmask &= !(1 << b);
                out.push(c);
            }
        }
    }
    if sc.rhmask != 0 {
        let mut c = sc.clone();
        c.rhmask = 0;
        out.push(c);
    }
    match &sc.fault {
        FaultSpec::None => {}
        f => {
            let mut c = sc.clone();
            c.fault = FaultSpec::None;
            out.push(c);
            match f {
                FaultSpec::SerExit(k) if *k > 0 => {
                    for nk in [0, k / 2, k - 1] {
                        let mut c = sc.clone();
                        c.fault = FaultSpec::SerExit(nk);
                        out.push(c);
                    }
                }
                FaultSpec::SerEvery => {
                    for k in 0..64 {
                        let mut c = sc.clone();
                        c.fault = FaultSpec::Ser(k);
                        out.push(c);
                        let mut c = sc.clone();
                        c.fault = FaultSpec::SerExit(k);
                        out.push(c);
                    }
                }
                FaultSpec::Ser(k) if *k > 0 => {
                    for nk in [0, k / 2, k - 1] {
                        let mut c = sc.clone();
                        c.fault = FaultSpec::Ser(nk);
                        out.push(c);
                    }
                }
                FaultSpec::VisEvery => {
                    // pin the enumeration down to one position
                    for k in 0..96 {
                        for e in [false, true] {
                            let mut c = sc.clone();
                            c.fault = FaultSpec::Vis(k, e);
                            out.push(c);
                            let mut c = sc.clone();
                            c.fault = FaultSpec::Seed(k, e);
                            out.push(c);
                        }
                    }
                }
                FaultSpec::Vis(k, e) if *k > 0 => {
                    for nk in [0, k / 2, k - 1] {
                        let mut c = sc.clone();
                        c.fault = FaultSpec::Vis(nk, *e);
                        out.push(c);
                    }
                }
                _ => {}
            }
        }
    }
    if !sc.perms.is_empty() {
        for i in 0..sc.perms.len() {
            let mut c = sc.clone();
            c.perms.remove(i);
            out.push(c);
        }
    }
    if let Some(r) = &sc.real {
        for ns in 0..r.size {
            let mut c = sc.clone();
            c.real.as_mut().unwrap().size = ns;
            out.push(c);
        }
    }
    if let Some(val) = &sc.val {
        for nt in ty_shrinks(&sc.ty) {
            if let Some(nv) = coerce(&sc.ty, &nt, val) {
                let mut c = sc.clone();
                c.perms = sc.perms.iter().filter_map(|p| coerce(&sc.ty, &nt, p)).collect();
                c.ty = nt;
                c.val = Some(nv);
                out.push(c);
            }
        }
        for nv in val_shrinks(&sc.ty, val) {
            let mut c = sc.clone();
            c.val = Some(nv);
            if !sc.perms.is_empty() {
                // permutations of a changed value are no longer permutations of it: drop them
                c.perms.clear();
            }
            out.push(c);
        }
    } else if sc.doc.is_some() {
        // document-driven: only the reader's type can be shrunk here; the document is shrunk by docgen::shrink_doc
        for nt in ty_shrinks(&sc.ty) {
            let mut c = sc.clone();
            c.ty = nt;
            out.push(c);
        }
        out.extend(crate::docgen::shrink_doc(sc));
    }
    out
}

/// Greedy minimisation: keep a candidate iff it still produces a violation with the same signature.
pub fn minimise(
    sc: &Scenario,
    signature: &str,
    names: &[&str],
    exec: &dyn Fn(&Scenario) -> RunOut,
    budget_execs: usize,
    budget: std::time::Duration,
) -> (Scenario, usize) {
    let start = std::time::Instant::now();
    let mut cur = sc.clone();
    let mut execs = 0usize;
    'outer: loop {
        for cand in shrinks(&cur, names) {
            if execs >= budget_execs || start.elapsed() > budget {
                break 'outer;
            }
            execs += 1;
            let r = exec(&cand);
            if r.harness_error.is_none() && r.violations.iter().any(|v| v.signature == signature) {
                cur = cand;
                continue 'outer;
            }
        }
        break;
    }
    (cur, execs)
}
