//! C13 — every decoding and encoding route gives the same answer.
//! Simulated party: the reader peer ("every target type"), run against every decoding route,
//! with F-VIS failures; and the writer peer for the `try_from` direction.

use crate::c07::{run_serializer, SerOut};
use crate::common::*;
use crate::gen::*;
use crate::model::*;
use crate::reader::*;
use crate::rng::Rng;
use crate::routes::*;
use crate::seam::*;
use crate::types::*;
use crate::writer::*;
use serde::Serialize;
use std::panic::{catch_unwind, AssertUnwindSafe};

pub const NAMES: &[&str] = &[
    R1, R2, R3, R4, R4I, R4J, R4K, R4V, R5, R6, R7A, R7B, R7C, R2S, R2P, R1D, R5P, R6P, R5I, R6I,
    "toml::Value::try_from", "toml::Table::try_from", "value-encoders",
];

const TEXT_SERS: &[&str] = &["toml::to_string", "toml::to_string_pretty", "toml_edit::ser::to_string", "toml_edit::ser::to_string_pretty", "toml_edit::ser::to_document"];

pub fn generate(rng: &mut Rng, tier: &str) -> Scenario {
    if rng.chance(1, 8) {
        return crate::realfam::generate("C13", rng);
    }
    if rng.chance(2, 5) {
        return generate_b(rng, tier);
    }
    let cfg = GenCfg::swarm(rng);
    let mut g = Gen::new(rng, cfg);
    let ty = g.ty(0, Pos::Root);
    let val = g.val(&ty);
    let mut sc = Scenario::new("C13", "A", ty);
    sc.val = Some(val);
    // which text serializer produces the document (layout variety)
    sc.whseed = rng.below(TEXT_SERS.len()) as u64;
    // a writer that emits one map key twice (think `#[serde(flatten)]` colliding with a declared
    // field): legal serde, last-or-first wins is the library's choice — but the same choice on every
    // encoding route (clause 3)
    if rng.chance(1, 12) {
        if let Some(v) = sc.val.as_mut() {
            if dup_key(&sc.ty, v) {
                sc.whmask |= DUP_KEY;
            }
        }
    }
    match rng.below(10) {
        0 | 1 | 2 => sc.fault = FaultSpec::Vis(rng.below(40) as u32, rng.chance(1, 2)),
        _ => {}
    }
    // hand-written writers in a quarter of the runs: length hints absent / inexact, entries split into
    // key + value, structs written as maps or (positionally) as tuples
    if rng.chance(1, 4) {
        sc.whmask |= (rng.next() as u32) & (H1_NOLEN | H2_SPLIT_ENTRY | H6_INEXACT_LEN | H7_STRUCT_AS_MAP | H8_STRUCT_AS_TUPLE);
    }
    // hand-written leaf visitors (visit_i64 / visit_f64 only) in a third of the runs
    if rng.chance(1, 3) {
        sc.rhmask |= H9_NARROW;
        sc.rhseed = rng.next();
    }
    sc
}

/// sign bits of the NaNs of a value, in a traversal order that does not depend on map order
fn nan_signs(v: &toml::Value) -> Vec<bool> {
    fn go(v: &toml::Value, out: &mut Vec<bool>) {
        match v {
            toml::Value::Float(f) if f.is_nan() => out.push(f.is_sign_negative()),
            toml::Value::Array(a) => a.iter().for_each(|x| go(x, out)),
            toml::Value::Table(t) => {
                let mut ks: Vec<&String> = t.keys().collect();
                ks.sort();
                for k in ks {
                    go(&t[k.as_str()], out);
                }
            }
            _ => {}
        }
    }
    let mut out = Vec::new();
    go(v, &mut out);
    out
}

pub const DUP_KEY: u32 = 0x100;

/// append a second entry for the first key of the first non-empty string-keyed map found
fn dup_key(ty: &Ty, v: &mut Val) -> bool {
    match (ty, v) {
        (Ty::Map(KeyTy::Str, _), Val::Map(kvs)) if !kvs.is_empty() => {
            let k = kvs[0].0.clone();
            let other = kvs.last().unwrap().1.clone();
            let first = kvs[0].1.clone();
            // make the two values differ where possible
            let second = if other != first { other } else { first };
            kvs.push((k, second));
            true
        }
        (Ty::Map(_, vt), Val::Map(kvs)) => kvs.iter_mut().any(|(_, x)| dup_key(vt, x)),
        (Ty::Option(t), Val::Some(x)) => dup_key(t, x),
        (Ty::Newtype(_, t), x) => dup_key(t, x),
        (Ty::Seq(t), Val::Seq(xs)) => xs.iter_mut().any(|x| dup_key(t, x)),
        (Ty::Struct(_, fs), Val::Struct(xs)) => fs.iter().zip(xs.iter_mut()).any(|((_, t), x)| dup_key(t, x)),
        _ => false,
    }
}

pub fn generate_b(rng: &mut Rng, _tier: &str) -> Scenario {
    let (doc, tree) = crate::docgen::gen_doc(rng);
    let ty = crate::docgen::infer_type(rng, &tree, true);
    let mut sc = Scenario::new("C13", "B", ty);
    sc.doc = Some(doc);
    if rng.chance(1, 4) {
        sc.fault = FaultSpec::Vis(rng.below(60) as u32, rng.chance(1, 2));
    }
    if rng.chance(1, 6) {
        sc.rhmask = H8_STOP;
        sc.rhseed = rng.next();
    }
    sc
}

fn ser_plain<T: Serialize>(name: &str, v: &T) -> Result<SerOut, String> {
    run_serializer(name, v)
}

pub fn execute(sc: &Scenario, verbose: bool) -> RunOut {
    let mut out = RunOut::default();
    match sc.workload.as_str() {
        "A" => exec_a(sc, verbose, &mut out),
        "B" => exec_b(sc, verbose, &mut out),
        "R" => crate::realfam::execute("C13", sc, verbose, &mut out),
        w => out.harness_error = Some(format!("C13: unknown workload {w}")),
    }
    out
}

fn fault_of(sc: &Scenario) -> Fault {
    match sc.fault {
        FaultSpec::Vis(k, exit) => Fault::Vis { k, exit },
        _ => Fault::None,
    }
}

fn log_cx(out: &mut RunOut, title: &str, cx: &Ctx, verbose: bool) {
    if verbose {
        out.log.push(format!("--- {title}"));
        for e in cx.log.borrow().iter() {
            out.log.push(format!("  {} {:>2} {} {:?}", e.c, e.d, e.k, e.p));
        }
    }
}

/// Run `routes` on `text` (R7 routes on `vtext`), return per-route outcome; reports panics and swallowed faults.
fn run_routes(
    sc: &Scenario,
    text: &str,
    vtext: Option<&str>,
    ty: &Ty,
    fault: Fault,
    out: &mut RunOut,
    verbose: bool,
) -> Vec<(&'static str, Result<Val, RouteErr>, bool)> {
    let mut res = Vec::new();
    for route in ALL_ROUTES {
        if !route_on(sc, route) {
            continue;
        }
        out.stats.inc(&format!("route.{}", route.split(':').next().unwrap_or(route)));
        let is_v = *route == R7A || *route == R7B || *route == R7C;
        let t = if is_v {
            match vtext {
                Some(t) => t,
                None => continue,
            }
        } else {
            text
        };
        let cx = Ctx::new(fault, verbose);
        let rcfg = RCfg::new(sc.rhmask, sc.rhseed);
        let r = catch_unwind(AssertUnwindSafe(|| run_route(route, t, ty, &rcfg, &cx)));
        out.absorb(&cx);
        log_cx(out, &format!("{route} fault={fault:?}"), &cx, verbose);
        if rcfg.stops.get() > 0 {
            out.stats.add("hflag.H8.stops", rcfg.stops.get() as u64);
        }
        let fired = cx.has_fired();
        match r {
            Err(p) => {
                let msg = panic_msg(&p);
                if msg.contains("HARNESS") {
                    out.harness_error = Some(msg);
                    return res;
                }
                out.violate("C13/4", format!("C13/panic/route={route}"), format!("{route} panicked: {msg}\n--- text ---\n{t}"));
            }
            Ok(r) => {
                if let Err(e) = &r {
                    out.note(&e.rendered);
                    if e.message.contains("HARNESS") {
                        out.harness_error = Some(e.message.clone());
                        return res;
                    }
                }
                if fired {
                    out.stats.inc("fault.F-VIS.fired");
                    if let Some(f) = cx.fired.borrow().as_ref() {
                        out.stats.inc(&format!("faultsite.{}.{}", f.cb, if f.exit { "exit" } else { "entry" }));
                    }
                    if r.is_ok() {
                        out.violate(
                            "C13/4",
                            format!("C13/fault-swallowed/route={route}"),
                            format!("{route} returned Ok although the reader's visitor callback failed ({:?})\n--- text ---\n{t}", cx.fired.borrow()),
                        );
                        continue;
                    }
                }
                res.push((*route, r, fired));
            }
        }
    }
    res
}

fn exec_a(sc: &Scenario, verbose: bool, out: &mut RunOut) {
    let ty = &sc.ty;
    let val = sc.val.as_ref().expect("C13/A without value");
    let dup = sc.whmask & DUP_KEY != 0;
    // with a duplicated key "that value" is not defined: only route agreement and clause 3 are asserted
    let must = must_succeed(ty, val) && !dup;
    if dup {
        out.stats.inc("probe.duplicate_key_writer");
    }
    out.stats.inc(if must { "class.must_succeed" } else { "class.outside" });
    if has_dt(val) {
        out.stats.inc("probe.datetime_leaf");
    }
    let wcfg = WCfg::new(sc.whmask & 0xff, crate::rng::mix(&[sc.whseed, 0x77]));
    // a struct written positionally changes the shape of the text: outside the must-succeed class
    let must = must && sc.whmask & H8_STRUCT_AS_TUPLE == 0;
    let w = WTop(W { ty, v: val, cfg: &wcfg });
    let sname = TEXT_SERS[(sc.whseed as usize) % TEXT_SERS.len()];
    // the document: text obtained by serializing a value of the target type
    let text = match catch_unwind(AssertUnwindSafe(|| ser_plain(sname, &w))) {
        Ok(Ok(SerOut::Text(t))) => Some(t),
        _ => None, // C07's business
    };
    // single-value text for the value deserializers
    let vtext = catch_unwind(AssertUnwindSafe(|| w.serialize(toml_edit::ser::ValueSerializer::new()).ok().map(|v| v.to_string()))).ok().flatten();

    if let Some(text) = &text {
        out.note(text);
        if verbose {
            out.log.push(format!("document from {sname}:\n{text}"));
        }
        let fault = fault_of(sc);
        let runs: Vec<Fault> = if fault == Fault::None { vec![Fault::None] } else { vec![fault, Fault::None] };
        for f in runs {
            let res = run_routes(sc, text, vtext.as_deref(), ty, f, out, verbose);
            if out.harness_error.is_some() {
                return;
            }
            if f != Fault::None {
                continue; // under a fault only "fired => Err, no panic" is asserted
            }
            // clause 1: all successful routes agree; clause 2: on must-succeed scenarios every route succeeds with v
            let want = val.canon(true);
            let mut first: Option<(&str, Val)> = None;
            for (route, r, _) in &res {
                match r {
                    Ok(v) => {
                        out.stats.inc("oracle.route_ok");
                        let c = v.canon(true);
                        if must && c != want {
                            out.violate(
                                "C13/2",
                                format!("C13/route-wrong-value/route={route}"),
                                format!("{route} succeeded with a value different from the one serialized\n wrote {want:?}\n read  {c:?}\n--- text ({sname}) ---\n{text}"),
                            );
                        }
                        match &first {
                            None => first = Some((route, c)),
                            Some((r0, c0)) => {
                                if *c0 != c {
                                    out.violate(
                                        "C13/1",
                                        format!("C13/routes-disagree/{}|{}", r0.split(':').next().unwrap(), route.split(':').next().unwrap()),
                                        format!("{r0} and {route} both succeed with different values\n {r0}: {c0:?}\n {route}: {c:?}\n--- text ({sname}) ---\n{text}"),
                                    );
                                }
                            }
                        }
                    }
                    Err(e) => {
                        out.stats.inc("oracle.route_err");
                        // outside the must-succeed class a text that NO route reads back is C07's business;
                        // one that some routes read back as the value written and others reject is C13's
                        let other_ok = res.iter().find(|(r2, x, _)| {
                            let same_kind = [R7A, R7B, R7C].contains(r2) == [R7A, R7B, R7C].contains(route);
                            same_kind && matches!(x, Ok(v) if v.canon(true) == want)
                        });
                        if must {
                            out.violate(
                                "C13/2",
                                format!("C13/route-fails-on-own-output/route={route}"),
                                format!("{route} fails on text obtained by serializing a value of the target type: {}\n--- text ({sname}) ---\n{text}\n--- value text ---\n{vtext:?}", e.rendered),
                            );
                        } else if let (Some((r2, _, _)), false) = (other_ok, dup) {
                            out.violate(
                                "C13/2",
                                format!("C13/route-fails-on-own-output-others-read/route={route}"),
                                format!("{route} fails on text obtained by serializing a value of the target type ({}), while {r2} reads it back as the value written\n--- text ({sname}) ---\n{text}\n--- value text ---\n{vtext:?}", e.rendered),
                            );
                        }
                    }
                }
            }
        }
    }

    // the single-value deserializers with every wrapper kind as the *top-level* target: each field of
    // a root struct, serialized as a single value, read with the field's own type
    if let (true, Ty::Struct(_, fs), Val::Struct(xs), FaultSpec::None) = (must, ty, val, &sc.fault) {
        for ((_, ft), fv) in fs.iter().zip(xs).take(4) {
            let (ft, fv) = match (ft, fv) {
                (Ty::Option(_), Val::None) => continue,
                (Ty::Option(t), Val::Some(x)) if matches!(**t, Ty::Option(_)) => (&**t, &**x),
                other => other,
            };
            let fw = WTop(W { ty: ft, v: fv, cfg: &wcfg });
            // the value's text comes from either crate's single-value serializer (seeded choice)
            let use_toml = crate::rng::mix(&[sc.whseed, ft.count_nodes() as u64, 0x7a]) % 2 == 0;
            let ftext = if use_toml {
                let mut s = String::new();
                match catch_unwind(AssertUnwindSafe(|| fw.serialize(toml::ser::ValueSerializer::new(&mut s)).is_ok())) {
                    Ok(true) => s,
                    _ => continue,
                }
            } else {
                match catch_unwind(AssertUnwindSafe(|| fw.serialize(toml_edit::ser::ValueSerializer::new()).ok().map(|v| v.to_string()))) {
                    Ok(Some(t)) => t,
                    _ => continue,
                }
            };
            out.stats.inc(if use_toml { "probe.field_value_text_from_toml" } else { "probe.field_value_text_from_toml_edit" });
            for route in [R7A, R7B, R7C] {
                if !sc.wants(route) {
                    continue;
                }
                let cx = Ctx::new(Fault::None, verbose);
                let rcfg = RCfg::plain();
                let r = catch_unwind(AssertUnwindSafe(|| run_route(route, &ftext, ft, &rcfg, &cx)));
                out.absorb(&cx);
                log_cx(out, &format!("{route} on field value {ftext:?}"), &cx, verbose);
                out.stats.inc("oracle.value_route_on_field");
                match r {
                    Err(p) => out.violate("C13/4", format!("C13/panic/route={route}"), format!("{route} panicked on {ftext:?}: {}", panic_msg(&p))),
                    Ok(Err(e)) => out.violate(
                        "C13/2",
                        format!("C13/route-fails-on-own-output/route={route}"),
                        format!("{route} fails on the text of a single value obtained by serializing a value of the target type {}: {}\n--- value text ---\n{ftext}", crate::render::rust_decl(ft), e.rendered),
                    ),
                    Ok(Ok(v2)) => {
                        if v2.canon(true) != fv.canon(true) {
                            out.violate(
                                "C13/2",
                                format!("C13/route-wrong-value/route={route}"),
                                format!("{route} returns a value different from the one serialized\n wrote {:?}\n read  {:?}\n--- value text ---\n{ftext}", fv.canon(true), v2.canon(true)),
                            );
                        }
                    }
                }
            }
        }
    }

    // clause 3: try_from gives the same tree as serializing to text and parsing that text
    let text_value = text.as_ref().and_then(|t| catch_unwind(AssertUnwindSafe(|| toml::from_str::<toml::Value>(t).ok())).ok().flatten());
    let text_tree = text_value.as_ref().map(Tree::from_value);
    let mut try_from_value: Option<toml::Value> = None;
    for name in ["toml::Value::try_from", "toml::Table::try_from"] {
        if !sc.only.is_empty() && !sc.wants(name) && !(name == "toml::Value::try_from" && sc.wants("value-encoders")) {
            continue;
        }
        let cx = Ctx::new(Fault::None, verbose);
        let r = catch_unwind(AssertUnwindSafe(|| run_serializer(name, &PVal { v: &w, cx: &cx })));
        out.absorb(&cx);
        log_cx(out, name, &cx, verbose);
        match r {
            Err(p) => out.violate("C13/3", format!("C13/panic/ser={name}"), format!("{name} panicked: {}", panic_msg(&p))),
            Ok(Ok(SerOut::Value(v))) => {
                let t = Tree::from_value(&v);
                out.note(&format!("{t:?}"));
                if name == "toml::Value::try_from" {
                    try_from_value = Some(v.clone());
                }
                if let Some(tt) = &text_tree {
                    out.stats.inc("oracle.try_from_vs_text");
                    // the model tree unifies NaNs; the two encoding routes must also agree on the sign
                    let signs_a = nan_signs(&v);
                    let signs_b = text_value.as_ref().map(nan_signs).unwrap_or_default();
                    if signs_a != signs_b && t.eq_unordered(tt) {
                        out.violate(
                            "C13/3",
                            format!("C13/try_from-differs-from-text-route/nan-sign/ser={name}"),
                            format!("{name} and the text route disagree on the sign of a NaN: {signs_a:?} vs {signs_b:?}"),
                        );
                    }
                    if !t.eq_unordered(tt) {
                        out.violate(
                            "C13/3",
                            format!("C13/try_from-differs-from-text-route/ser={name}"),
                            format!("{name} gives a tree different from parsing the serialized text\n try_from: {:?}\n text:     {:?}", t.sorted(), tt.sorted()),
                        );
                    }
                }
            }
            Ok(Ok(SerOut::Text(_))) => {}
            Ok(Err(msg)) => {
                out.note(&msg);
                if msg.contains("HARNESS") {
                    out.harness_error = Some(msg);
                    return;
                }
                // "gives the same tree ... for every type": if the text route succeeded on a must-succeed value, so must try_from
                // (text success implies a table root, so Table::try_from is held to it as well; no `must`:
                // the clause speaks of every type the text route can serialize)
                // Reference text route for this direction: toml::to_string (toml_edit's serializers accept
                // a struct variant at the root, which toml's document serializer documents as unsupported).
                let toml_text_ok = catch_unwind(AssertUnwindSafe(|| toml::to_string(&w).is_ok())).unwrap_or(false);
                // Enum roots are left to the must-succeed class: which variant kinds each root serializer
                // accepts differs by design (struct / tuple variants at the root are documented as unsupported).
                if text_tree.is_some() && toml_text_ok && !dup && (must || ok_root(ty)) {
                    out.violate("C13/3", format!("C13/try_from-fails/ser={name}"), format!("{name} fails ({msg}) although serializing to text and parsing it succeeds"));
                }
            }
        }
    }

    // reach of the writer's unusual choices (how often each was actually taken in this scenario)
    for (i, u) in wcfg.used.iter().enumerate() {
        if u.get() > 0 {
            out.stats.add(&format!("writer_hazard.H{}.taken", i + 1), u.get() as u64);
        }
    }
    // value-level encoders (the single-value counterparts of the text route): the text written by
    // toml::ser::ValueSerializer and by toml_edit::ser::ValueSerializer parses to the same tree, and
    // that tree is the one Value::try_from gives ("the same tree as serializing it to text and
    // parsing that text", for a single value). Only successes are compared: which shapes each value
    // serializer accepts differs by design (toml's rejects struct variants).
    if sc.only.is_empty() || sc.wants("value-encoders") {
        let parse_value = |t: &str| -> Option<toml::Value> {
            use serde::Deserialize;
            catch_unwind(AssertUnwindSafe(|| toml::Value::deserialize(toml::de::ValueDeserializer::new(t)).ok())).ok().flatten()
        };
        let mut s = String::new();
        let a = catch_unwind(AssertUnwindSafe(|| w.serialize(toml::ser::ValueSerializer::new(&mut s)).map_err(|e| e.to_string())));
        let ta: Option<(String, Option<toml::Value>)> = match a {
            Err(p) => {
                out.violate("C13/3", "C13/panic/ser=toml::ser::ValueSerializer".into(), format!("toml::ser::ValueSerializer panicked: {}", panic_msg(&p)));
                None
            }
            Ok(Ok(())) => Some((s.clone(), parse_value(&s))),
            Ok(Err(_)) => None,
        };
        let tb: Option<(String, Option<toml::Value>)> = vtext.as_ref().map(|t| (t.clone(), parse_value(t)));
        for (name, t) in [("toml::ser::ValueSerializer", &ta), ("toml_edit::ser::ValueSerializer", &tb)] {
            let Some((txt, parsed)) = t else { continue };
            out.note(txt);
            let Some(parsed) = parsed else {
                out.violate("C13/3", format!("C13/value-encoder-text-unreadable/ser={name}"), format!("{name} returned Ok but its text is not readable as a single value: {txt:?}"));
                continue;
            };
            if let Some(tv) = &try_from_value {
                out.stats.inc("oracle.try_from_vs_value_text");
                let (x, y) = (Tree::from_value(parsed), Tree::from_value(tv));
                if !x.eq_unordered(&y) {
                    out.violate(
                        "C13/3",
                        format!("C13/try_from-differs-from-value-text/ser={name}"),
                        format!("Value::try_from gives a tree different from parsing the text written by {name}\n try_from: {:?}\n text:     {:?}\n {txt:?}", y.sorted(), x.sorted()),
                    );
                } else if nan_signs(parsed) != nan_signs(tv) {
                    out.violate("C13/3", format!("C13/try_from-differs-from-value-text/nan-sign/ser={name}"), format!("Value::try_from and {name} disagree on the sign of a NaN\n {txt:?}"));
                }
            }
        }
        if let (Some((sa, Some(pa))), Some((sb, Some(pb)))) = (&ta, &tb) {
            out.stats.inc("oracle.value_encoders_agree");
            if !Tree::from_value(pa).eq_unordered(&Tree::from_value(pb)) {
                out.violate(
                    "C13/3",
                    "C13/value-encoders-differ".into(),
                    format!("toml::ser::ValueSerializer and toml_edit::ser::ValueSerializer write texts that parse to different trees\n toml:      {sa:?}\n toml_edit: {sb:?}"),
                );
            }
        }
    }
}

fn exec_b(sc: &Scenario, verbose: bool, out: &mut RunOut) {
    let ty = &sc.ty;
    let doc = sc.doc.as_ref().expect("C13/B without document");
    let text = &doc.text;
    out.note(text);
    // the document must be accepted (acceptance itself is C01): otherwise skip and count
    let parsed = catch_unwind(AssertUnwindSafe(|| toml_edit::ImDocument::parse(text.clone())));
    let tree = match parsed {
        Err(p) => {
            out.violate("C13/4", "C13/panic/parse".into(), format!("parser panicked: {}\n--- text ---\n{text}", panic_msg(&p)));
            return;
        }
        Ok(Err(_)) => {
            out.stats.inc("docgen_rejected");
            return;
        }
        Ok(Ok(d)) => Tree::from_item(d.as_item()).unwrap_or(Tree::Tab(vec![])),
    };
    if let Some(expected) = &doc.tree {
        if !expected.eq_unordered(&tree) {
            // the generator's own plan disagrees with the parser: C02's business, not this check's; count it
            out.stats.inc("docgen_tree_mismatch");
            return;
        }
    }
    out.stats.inc("workload.B");
    let expect = if sc.rhmask & H8_STOP != 0 { RefOut::Unspecified } else { refread(ty, &tree) };
    out.stats.inc(match &expect {
        RefOut::Val(_) => "ref.value",
        RefOut::Mismatch => "ref.mismatch",
        RefOut::Unspecified => "ref.unspecified",
    });
    let fault = fault_of(sc);
    let runs: Vec<Fault> = if fault == Fault::None { vec![Fault::None] } else { vec![fault, Fault::None] };
    for f in runs {
        let mut sc2 = sc.clone();
        // single-value routes do not apply to whole documents
        if sc2.only.is_empty() {
            sc2.only = DOC_ROUTES_X.iter().filter(|r| route_on(sc, r)).map(|s| s.to_string()).collect();
        }
        let res = run_routes(&sc2, text, None, ty, f, out, verbose);
        if out.harness_error.is_some() || f != Fault::None {
            continue;
        }
        let mut first: Option<(&str, Val)> = None;
        for (route, r, _) in &res {
            match r {
                Ok(v) => {
                    out.stats.inc("oracle.route_ok");
                    let c = v.despan().canon(true);
                    // The reference reading is NOT asserted: C13 only states that the routes agree
                    // (what the right value is belongs to C02). It is recorded as a probe.
                    match &expect {
                        RefOut::Val(w) => out.stats.inc(if w.canon(true) == c { "probe.ref.agrees" } else { "probe.ref.differs" }),
                        RefOut::Mismatch => out.stats.inc("probe.ref.route_accepts_mismatch"),
                        RefOut::Unspecified => {}
                    }
                    match &first {
                        None => first = Some((route, c)),
                        Some((r0, c0)) => {
                            if *c0 != c && sc.rhmask & H8_STOP == 0 {
                                out.violate(
                                    "C13/1",
                                    format!("C13/routes-disagree/{}|{}", r0.split(':').next().unwrap(), route.split(':').next().unwrap()),
                                    format!("{r0} and {route} both succeed with different values\n {r0}: {c0:?}\n {route}: {c:?}\n--- text ---\n{text}"),
                                );
                            }
                        }
                    }
                }
                Err(e) => {
                    out.stats.inc("oracle.route_err");
                    // not asserted either: "every route succeeds" is stated only for text obtained by
                    // serializing a value of the target type (workload A)
                    if let RefOut::Val(_) = &expect {
                        out.stats.inc("probe.ref.route_rejects_fitting_document");
                        let _ = e;
                    }
                }
            }
        }
    }
}
