//! `DynVal`: a `DeserializeOwned` *type* standing for "the reader peer of the current scenario",
//! so that the real generic entry points (`toml::from_str::<T>`, `from_slice`, `from_document`,
//! `Value::try_into`, `Table::try_into`) can be called exactly as a user would call them. The
//! peer (type description, reader choices, seam context) is installed in a thread-local for the
//! duration of one call; everything below the root is handled by seeds and never looks at it again.

use crate::reader::{RCfg, R};
use crate::seam::{Ctx, PSeed};
use crate::types::{Ty, Val};
use serde::de::{Deserialize, DeserializeSeed, Deserializer};
use std::cell::Cell;

thread_local! {
    static PEER: Cell<Option<(*const Ty, *const RCfg, *const Ctx)>> = Cell::new(None);
}

pub struct DynVal(pub Val);

impl<'de> Deserialize<'de> for DynVal {
    fn deserialize<D: Deserializer<'de>>(d: D) -> Result<Self, D::Error> {
        let (ty, cfg, cx) = PEER.with(|p| p.get()).expect("HARNESS: DynVal used outside with_peer");
        // SAFETY: the pointers are installed by `with_peer`, which keeps the referents borrowed for
        // the whole call and clears the slot before returning.
        let (ty, cfg, cx) = unsafe { (&*ty, &*cfg, &*cx) };
        PSeed { s: R { ty, cfg }, cx }.deserialize(d).map(DynVal)
    }
}

pub fn with_peer<T>(ty: &Ty, cfg: &RCfg, cx: &Ctx, f: impl FnOnce() -> T) -> T {
    struct Reset;
    impl Drop for Reset {
        fn drop(&mut self) {
            PEER.with(|p| p.set(None));
        }
    }
    PEER.with(|p| p.set(Some((ty as *const Ty, cfg as *const RCfg, cx as *const Ctx))));
    let _r = Reset;
    f()
}

thread_local! {
    static RCX: Cell<Option<*const Ctx>> = Cell::new(None);
}

/// Same idea for *real* types (the derived family of `realfam.rs`): `DynReal<T>` deserializes a `T`
/// through the seam interposers of the context installed by `with_cx`.
pub struct DynReal<T>(pub T);

impl<'de, T: Deserialize<'de>> Deserialize<'de> for DynReal<T> {
    fn deserialize<D: Deserializer<'de>>(d: D) -> Result<Self, D::Error> {
        let cx = RCX.with(|p| p.get()).expect("HARNESS: DynReal used outside with_cx");
        // SAFETY: installed by `with_cx` for the duration of the call, cleared before it returns
        let cx = unsafe { &*cx };
        PSeed { s: std::marker::PhantomData::<T>, cx }.deserialize(d).map(DynReal)
    }
}

pub fn with_cx<R>(cx: &Ctx, f: impl FnOnce() -> R) -> R {
    struct Reset;
    impl Drop for Reset {
        fn drop(&mut self) {
            RCX.with(|p| p.set(None));
        }
    }
    RCX.with(|p| p.set(Some(cx as *const Ctx)));
    let _r = Reset;
    f()
}
