//! `DynVal`: a `DeserializeOwned` *type* standing for "the reader peer of the current scenario",
//! so that the real generic entry points (`toml::from_str::<T>`, `from_slice`, `from_document`,
//! `Value::try_into`, `Table::try_into`) can be called exactly as a user would call them. The
//! peer (type description, reader choices, seam context) is installed in a thread-local for the
//! duration of one call; everything below the root is handled by seeds and never looks at it again.

use crate::reader::{RCfg, R};
use crate::seam::{Ctx, PSeed};
use crate::types::{Ty, Val};
use serde::de::{Deserialize, DeserializeSeed, Deserializer};
use std::cell::Cell;

thread_local! {
    static PEER: Cell<Option<(*const Ty, *const RCfg, *const Ctx)>> = Cell::new(None);
}

pub struct DynVal(pub Val);

impl<'de> Deserialize<'de> for DynVal {
    fn deserialize<D: Deserializer<'de>>(d: D) -> Result<Self, D::Error> {
        let (ty, cfg, cx) = PEER.with(|p| p.get()).expect("HARNESS: DynVal used outside with_peer");
        // SAFETY: the pointers are installed by `with_peer`, which keeps the referents borrowed for
        // the whole call and clears the slot before returning.
        let (ty, cfg, cx) = unsafe { (&*ty, &*cfg, &*cx) };
        PSeed { s: R { ty, cfg }, cx }.deserialize(d).map(DynVal)
    }
}

pub fn with_peer<T>(ty: &Ty, cfg: &RCfg, cx: &Ctx, f: impl FnOnce() -> T) -> T {
    struct Reset;
    impl Drop for Reset {
        fn drop(&mut self) {
            PEER.with(|p| p.set(None));
        }
    }
    PEER.with(|p| p.set(Some((ty as *const Ty, cfg as *const RCfg, cx as *const Ctx))));
    let _r = Reset;
    f()
}
