//! xoshiro256** seeded through SplitMix64. No external PRNG crate so that replay is
//! independent of crate versions.

#[derive(Clone, Debug)]
pub struct Rng {
    s: [u64; 4],
}

pub fn splitmix(x: &mut u64) -> u64 {
    *x = x.wrapping_add(0x9E3779B97F4A7C15);
    let mut z = *x;
    z = (z ^ (z >> 30)).wrapping_mul(0xBF58476D1CE4E5B9);
    z = (z ^ (z >> 27)).wrapping_mul(0x94D049BB133111EB);
    z ^ (z >> 31)
}

/// Mix several integers into one seed (order-sensitive).
pub fn mix(parts: &[u64]) -> u64 {
    let mut h: u64 = 0x243F6A8885A308D3;
    for p in parts {
        h ^= *p;
        let mut x = h;
        h = splitmix(&mut x);
    }
    h
}

pub fn fnv(bytes: &[u8]) -> u64 {
    let mut h: u64 = 0xcbf29ce484222325;
    for b in bytes {
        h ^= *b as u64;
        h = h.wrapping_mul(0x100000001b3);
    }
    h
}

impl Rng {
    pub fn new(seed: u64) -> Self {
        let mut x = seed;
        let s = [
            splitmix(&mut x),
            splitmix(&mut x),
            splitmix(&mut x),
            splitmix(&mut x),
        ];
        Rng { s }
    }
    pub fn next(&mut self) -> u64 {
        let r = self.s[1].wrapping_mul(5).rotate_left(7).wrapping_mul(9);
        let t = self.s[1] << 17;
        self.s[2] ^= self.s[0];
        self.s[3] ^= self.s[1];
        self.s[1] ^= self.s[2];
        self.s[0] ^= self.s[3];
        self.s[2] ^= t;
        self.s[3] = self.s[3].rotate_left(45);
        r
    }
    /// uniform in 0..n (n > 0)
    pub fn below(&mut self, n: usize) -> usize {
        debug_assert!(n > 0);
        (self.next() % (n as u64)) as usize
    }
    /// inclusive range
    pub fn range(&mut self, lo: i64, hi: i64) -> i64 {
        debug_assert!(lo <= hi);
        let span = (hi as i128 - lo as i128 + 1) as u128;
        (lo as i128 + (self.next() as u128 % span) as i128) as i64
    }
    /// true with probability num/den
    pub fn chance(&mut self, num: u32, den: u32) -> bool {
        (self.next() % den as u64) < num as u64
    }
    pub fn pick<'a, T>(&mut self, xs: &'a [T]) -> &'a T {
        &xs[self.below(xs.len())]
    }
    pub fn shuffle<T>(&mut self, xs: &mut [T]) {
        for i in (1..xs.len()).rev() {
            let j = self.below(i + 1);
            xs.swap(i, j);
        }
    }
    pub fn fork(&mut self) -> Rng {
        Rng::new(self.next())
    }
}
