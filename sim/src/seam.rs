//! The seams the simulator owns: transparent interposers for `serde::Deserializer` (+ Visitor,
//! accesses), `serde::Serializer` (+ compound serializers) and `fmt::Write`.
//!
//! Every crossing is logged as an event with a global sequence number; faults are injected at a
//! chosen crossing (F-VIS: a visitor callback returns Err at entry/exit; F-SER: a nested
//! `Serialize::serialize` returns Err; F-SINK: `write_str` fails). The interposers add no
//! behaviour of their own: with `Fault::None` the library and the peer see exactly the calls they
//! would see without them.

use serde::de::{self, DeserializeSeed, Deserializer, EnumAccess, MapAccess, SeqAccess, VariantAccess, Visitor};
use serde::ser::{self, Serialize, Serializer};
use std::cell::{Cell, RefCell};
use std::fmt;

#[derive(Clone, Debug, PartialEq, Eq, Hash)]
pub enum Seg {
    /// value position of a map entry (a `next_value` frame)
    Key(String),
    Idx(usize),
    /// payload position of an enum variant
    Var(String),
}

pub fn is_private_key(k: &str) -> bool {
    k.starts_with("$__serde_spanned_private_") || k == "$__toml_private_datetime"
}

#[derive(Clone, Copy, Debug, PartialEq, Eq)]
pub enum Fault {
    None,
    /// reader callback #k returns Err at entry (exit=false) or after the real callback returned Ok (exit=true)
    Vis { k: u32, exit: bool },
    /// the k-th nested `Serialize::serialize` call returns Err: before touching the serializer (exit=false),
    /// or after its own serializer call came back, whatever that returned (exit=true: a context-wrapping
    /// `map_err`, a validation after the call)
    Ser { k: u32, exit: bool },
    /// F-SEED: the reader's k-th `DeserializeSeed::deserialize` (= `T::deserialize` of an element, value,
    /// key or variant) fails *outside* any visitor callback: before touching the deserializer (exit=false:
    /// e.g. a type that rejects the format) or after it returned Ok (exit=true: `#[serde(try_from)]`,
    /// `deserialize_with`, validation)
    Seed { k: u32, exit: bool },
}

#[derive(Clone, Debug)]
pub struct Ev {
    pub c: char, // 'D' hint, 'A' access call, 'V' visitor callback, 'S' serializer call, 'R' return, 'F' fault, 'W' sink
    pub k: &'static str,
    pub d: u16,
    pub p: String,
}

#[derive(Clone, Debug)]
pub struct HintRec {
    pub hint: &'static str,
    pub plen: usize,
    pub in_key: bool,
    pub key_depth: usize,
    pub name: String,
}

#[derive(Clone, Debug)]
pub struct Fired {
    pub cb: &'static str,
    pub exit: bool,
    pub path: Vec<Seg>,
    pub in_key: bool,
    /// for string callbacks: the string visited
    pub payload: String,
    pub hints: Vec<HintRec>,
    pub seq: u32,
    /// when `in_key`: ordinal of the key being read in its map (0 for an enum's variant key)
    pub key_index: usize,
    /// number of nested key reads active (1 = a plain key; 2 = inside the Spanned protocol of a key, ...)
    pub key_depth: usize,
    /// Some(kind) when the failing callback is the visitor the reader handed *directly* to
    /// `tuple_variant` / `struct_variant` (the library unpacks that payload itself)
    pub direct_variant: Option<&'static str>,
}

pub struct Ctx {
    pub log: RefCell<Vec<Ev>>,
    pub keep_log: bool,
    pub fault: Cell<Fault>,
    pub vis_count: Cell<u32>,
    pub ser_count: Cell<u32>,
    pub seed_count: Cell<u32>,
    pub fired: RefCell<Option<Fired>>,
    pub path: RefCell<Vec<Seg>>,
    pub hints: RefCell<Vec<HintRec>>,
    keycap: RefCell<Vec<Option<String>>>,
    keyidx: RefCell<Vec<usize>>,
    /// library-unpacked variant payloads in progress: (kind, hint depth, path length) at the time of the call
    vstack: RefCell<Vec<(&'static str, usize, usize)>>,
    /// running hashes: shape (kinds+depth only) and digest (with payloads)
    pub shape: Cell<u64>,
    pub digest: Cell<u64>,
    pub nev: Cell<u32>,
    /// per-callback kind counters for reach statistics: (cb kind, in_key)
    pub ser_depth: Cell<u16>,
    /// callback kinds seen in order (for fault-site statistics)
    pub cb_kinds: RefCell<Vec<&'static str>>,
}

#[inline]
fn hmix(h: u64, x: u64) -> u64 {
    (h ^ x).wrapping_mul(0x100000001b3).rotate_left(23) ^ 0x9E3779B97F4A7C15
}

impl Ctx {
    pub fn new(fault: Fault, keep_log: bool) -> Self {
        Ctx {
            log: RefCell::new(Vec::new()),
            keep_log,
            fault: Cell::new(fault),
            vis_count: Cell::new(0),
            ser_count: Cell::new(0),
            seed_count: Cell::new(0),
            fired: RefCell::new(None),
            path: RefCell::new(Vec::new()),
            hints: RefCell::new(Vec::new()),
            keycap: RefCell::new(Vec::new()),
            keyidx: RefCell::new(Vec::new()),
            vstack: RefCell::new(Vec::new()),
            shape: Cell::new(0xcbf29ce484222325),
            digest: Cell::new(0xcbf29ce484222325),
            nev: Cell::new(0),
            ser_depth: Cell::new(0),
            cb_kinds: RefCell::new(Vec::new()),
        }
    }
    pub fn has_fired(&self) -> bool {
        self.fired.borrow().is_some()
    }
    pub fn ev(&self, c: char, k: &'static str, p: &str) {
        let d = (self.path.borrow().len() + self.ser_depth.get() as usize) as u16;
        self.nev.set(self.nev.get() + 1);
        let kh = crate::rng::fnv(k.as_bytes()) ^ ((c as u64) << 56) ^ ((d as u64) << 40);
        self.shape.set(hmix(self.shape.get(), kh));
        self.digest.set(hmix(hmix(self.digest.get(), kh), crate::rng::fnv(p.as_bytes())));
        if self.keep_log {
            self.log.borrow_mut().push(Ev { c, k, d, p: p.to_string() });
        }
    }
    fn in_key(&self) -> bool {
        !self.keycap.borrow().is_empty()
    }
    fn hint_enter(&self, hint: &'static str, name: &str) {
        self.ev('D', hint, name);
        let plen = self.path.borrow().len();
        let key_depth = self.keycap.borrow().len();
        self.hints.borrow_mut().push(HintRec { hint, plen, in_key: self.in_key(), key_depth, name: name.to_string() });
    }
    fn hint_exit(&self, ok: bool) {
        self.hints.borrow_mut().pop();
        self.ev('R', if ok { "ok" } else { "err" }, "");
    }
    /// end of a key read: the captured key string; an enclosing key read (enum-typed or spanned key)
    /// inherits it unless it is a private protocol name
    fn pop_key(&self) -> Option<String> {
        let v = self.keycap.borrow_mut().pop().flatten();
        if let (Some(s), Some(top)) = (&v, self.keycap.borrow_mut().last_mut()) {
            if !is_private_key(s) {
                *top = Some(s.clone());
            }
        }
        v
    }
    fn note_str(&self, s: &str) {
        if let Some(top) = self.keycap.borrow_mut().last_mut() {
            *top = Some(s.to_string());
        }
    }
    fn fire(&self, cb: &'static str, exit: bool, payload: &str) {
        self.ev('F', cb, if exit { "exit" } else { "entry" });
        *self.fired.borrow_mut() = Some(Fired {
            cb,
            exit,
            path: self.path.borrow().clone(),
            in_key: self.in_key(),
            payload: payload.to_string(),
            hints: self.hints.borrow().clone(),
            seq: self.nev.get(),
            key_index: self.keyidx.borrow().first().copied().unwrap_or(0),
            key_depth: self.keycap.borrow().len(),
            direct_variant: self.vstack.borrow().last().and_then(|(k, hd, pl)| if *hd == self.hints.borrow().len() && *pl == self.path.borrow().len() { Some(*k) } else { None }),
        });
    }
    fn vis_enter<E: de::Error>(&self, cb: &'static str, payload: &str) -> Result<u32, E> {
        let idx = self.vis_count.get();
        self.vis_count.set(idx + 1);
        self.ev('V', cb, payload);
        self.cb_kinds.borrow_mut().push(cb);
        if let Fault::Vis { k, exit: false } = self.fault.get() {
            if k == idx && !self.has_fired() {
                self.fire(cb, false, payload);
                return Err(E::custom(format_args!("injected@{k}")));
            }
        }
        Ok(idx)
    }
    fn vis_exit<T, E: de::Error>(&self, idx: u32, cb: &'static str, payload: &str, r: Result<T, E>) -> Result<T, E> {
        self.ev('R', if r.is_ok() { "ok" } else { "err" }, "");
        if let Fault::Vis { k, exit: true } = self.fault.get() {
            if k == idx && r.is_ok() && !self.has_fired() {
                self.fire(cb, true, payload);
                return Err(E::custom(format_args!("injected@{k}")));
            }
        }
        r
    }
}

// ------------------------------------------------------------------------------------------------
// Deserializer side
// ------------------------------------------------------------------------------------------------

pub struct PDe<'c, D> {
    pub d: D,
    pub cx: &'c Ctx,
}

macro_rules! de_plain {
    ($($m:ident)*) => {$(
        fn $m<V: Visitor<'de>>(self, v: V) -> Result<V::Value, D::Error> {
            let cx = self.cx;
            cx.hint_enter(stringify!($m), "");
            let r = self.d.$m(PVis { v, cx });
            cx.hint_exit(r.is_ok());
            r
        }
    )*};
}

impl<'de, 'c, D: Deserializer<'de>> Deserializer<'de> for PDe<'c, D> {
    type Error = D::Error;
    de_plain! { deserialize_any deserialize_bool deserialize_i8 deserialize_i16 deserialize_i32 deserialize_i64
    deserialize_i128 deserialize_u8 deserialize_u16 deserialize_u32 deserialize_u64 deserialize_u128
    deserialize_f32 deserialize_f64 deserialize_char deserialize_str deserialize_string deserialize_bytes
    deserialize_byte_buf deserialize_option deserialize_unit deserialize_seq deserialize_map
    deserialize_identifier deserialize_ignored_any }

    fn deserialize_unit_struct<V: Visitor<'de>>(self, name: &'static str, v: V) -> Result<V::Value, D::Error> {
        let cx = self.cx;
        cx.hint_enter("deserialize_unit_struct", name);
        let r = self.d.deserialize_unit_struct(name, PVis { v, cx });
        cx.hint_exit(r.is_ok());
        r
    }
    fn deserialize_newtype_struct<V: Visitor<'de>>(self, name: &'static str, v: V) -> Result<V::Value, D::Error> {
        let cx = self.cx;
        cx.hint_enter("deserialize_newtype_struct", name);
        let r = self.d.deserialize_newtype_struct(name, PVis { v, cx });
        cx.hint_exit(r.is_ok());
        r
    }
    fn deserialize_tuple<V: Visitor<'de>>(self, len: usize, v: V) -> Result<V::Value, D::Error> {
        let cx = self.cx;
        cx.hint_enter("deserialize_tuple", &len.to_string());
        let r = self.d.deserialize_tuple(len, PVis { v, cx });
        cx.hint_exit(r.is_ok());
        r
    }
    fn deserialize_tuple_struct<V: Visitor<'de>>(self, name: &'static str, len: usize, v: V) -> Result<V::Value, D::Error> {
        let cx = self.cx;
        cx.hint_enter("deserialize_tuple_struct", &format!("{name}/{len}"));
        let r = self.d.deserialize_tuple_struct(name, len, PVis { v, cx });
        cx.hint_exit(r.is_ok());
        r
    }
    fn deserialize_struct<V: Visitor<'de>>(self, name: &'static str, fields: &'static [&'static str], v: V) -> Result<V::Value, D::Error> {
        let cx = self.cx;
        cx.hint_enter("deserialize_struct", &format!("{name}{fields:?}"));
        let r = self.d.deserialize_struct(name, fields, PVis { v, cx });
        cx.hint_exit(r.is_ok());
        r
    }
    fn deserialize_enum<V: Visitor<'de>>(self, name: &'static str, variants: &'static [&'static str], v: V) -> Result<V::Value, D::Error> {
        let cx = self.cx;
        cx.hint_enter("deserialize_enum", &format!("{name}{variants:?}"));
        let r = self.d.deserialize_enum(name, variants, PVis { v, cx });
        cx.hint_exit(r.is_ok());
        r
    }
    fn is_human_readable(&self) -> bool {
        self.d.is_human_readable()
    }
}

pub struct PVis<'c, V> {
    v: V,
    cx: &'c Ctx,
}

macro_rules! vis_scalar {
    ($($m:ident : $t:ty),*) => {$(
        fn $m<E: de::Error>(self, x: $t) -> Result<V::Value, E> {
            let p = format!("{:?}", x);
            // a key delivered as a scalar (a library that parses integer / bool / char keys): its text
            if self.cx.in_key() {
                self.cx.note_str(&x.to_string());
            }
            let idx = self.cx.vis_enter(stringify!($m), &p)?;
            let r = self.v.$m(x);
            self.cx.vis_exit(idx, stringify!($m), &p, r)
        }
    )*};
}

impl<'de, 'c, V: Visitor<'de>> Visitor<'de> for PVis<'c, V> {
    type Value = V::Value;
    fn expecting(&self, f: &mut fmt::Formatter<'_>) -> fmt::Result {
        self.v.expecting(f)
    }
    vis_scalar! { visit_bool: bool, visit_i8: i8, visit_i16: i16, visit_i32: i32, visit_i64: i64, visit_i128: i128,
    visit_u8: u8, visit_u16: u16, visit_u32: u32, visit_u64: u64, visit_u128: u128, visit_char: char }

    fn visit_f32<E: de::Error>(self, x: f32) -> Result<V::Value, E> {
        let p = format!("{:#x}", x.to_bits());
        let idx = self.cx.vis_enter("visit_f32", &p)?;
        let r = self.v.visit_f32(x);
        self.cx.vis_exit(idx, "visit_f32", &p, r)
    }
    fn visit_f64<E: de::Error>(self, x: f64) -> Result<V::Value, E> {
        let p = format!("{:#x}", x.to_bits());
        let idx = self.cx.vis_enter("visit_f64", &p)?;
        let r = self.v.visit_f64(x);
        self.cx.vis_exit(idx, "visit_f64", &p, r)
    }
    fn visit_str<E: de::Error>(self, x: &str) -> Result<V::Value, E> {
        self.cx.note_str(x);
        let idx = self.cx.vis_enter("visit_str", x)?;
        let r = self.v.visit_str(x);
        self.cx.vis_exit(idx, "visit_str", x, r)
    }
    fn visit_borrowed_str<E: de::Error>(self, x: &'de str) -> Result<V::Value, E> {
        self.cx.note_str(x);
        let idx = self.cx.vis_enter("visit_borrowed_str", x)?;
        let r = self.v.visit_borrowed_str(x);
        self.cx.vis_exit(idx, "visit_borrowed_str", x, r)
    }
    fn visit_string<E: de::Error>(self, x: String) -> Result<V::Value, E> {
        self.cx.note_str(&x);
        let p = x.clone();
        let idx = self.cx.vis_enter("visit_string", &p)?;
        let r = self.v.visit_string(x);
        self.cx.vis_exit(idx, "visit_string", &p, r)
    }
    fn visit_bytes<E: de::Error>(self, x: &[u8]) -> Result<V::Value, E> {
        let p = format!("{x:?}");
        let idx = self.cx.vis_enter("visit_bytes", &p)?;
        let r = self.v.visit_bytes(x);
        self.cx.vis_exit(idx, "visit_bytes", &p, r)
    }
    fn visit_borrowed_bytes<E: de::Error>(self, x: &'de [u8]) -> Result<V::Value, E> {
        let p = format!("{x:?}");
        let idx = self.cx.vis_enter("visit_borrowed_bytes", &p)?;
        let r = self.v.visit_borrowed_bytes(x);
        self.cx.vis_exit(idx, "visit_borrowed_bytes", &p, r)
    }
    fn visit_byte_buf<E: de::Error>(self, x: Vec<u8>) -> Result<V::Value, E> {
        let p = format!("{x:?}");
        let idx = self.cx.vis_enter("visit_byte_buf", &p)?;
        let r = self.v.visit_byte_buf(x);
        self.cx.vis_exit(idx, "visit_byte_buf", &p, r)
    }
    fn visit_none<E: de::Error>(self) -> Result<V::Value, E> {
        let idx = self.cx.vis_enter("visit_none", "")?;
        let r = self.v.visit_none();
        self.cx.vis_exit(idx, "visit_none", "", r)
    }
    fn visit_unit<E: de::Error>(self) -> Result<V::Value, E> {
        let idx = self.cx.vis_enter("visit_unit", "")?;
        let r = self.v.visit_unit();
        self.cx.vis_exit(idx, "visit_unit", "", r)
    }
    fn visit_some<D2: Deserializer<'de>>(self, d: D2) -> Result<V::Value, D2::Error> {
        let cx = self.cx;
        let idx = cx.vis_enter("visit_some", "")?;
        let r = self.v.visit_some(PDe { d, cx });
        cx.vis_exit(idx, "visit_some", "", r)
    }
    fn visit_newtype_struct<D2: Deserializer<'de>>(self, d: D2) -> Result<V::Value, D2::Error> {
        let cx = self.cx;
        let idx = cx.vis_enter("visit_newtype_struct", "")?;
        let r = self.v.visit_newtype_struct(PDe { d, cx });
        cx.vis_exit(idx, "visit_newtype_struct", "", r)
    }
    fn visit_seq<A: SeqAccess<'de>>(self, a: A) -> Result<V::Value, A::Error> {
        let cx = self.cx;
        let idx = cx.vis_enter("visit_seq", "")?;
        let r = self.v.visit_seq(PSeq { a, cx, i: 0 });
        cx.vis_exit(idx, "visit_seq", "", r)
    }
    fn visit_map<A: MapAccess<'de>>(self, a: A) -> Result<V::Value, A::Error> {
        let cx = self.cx;
        let idx = cx.vis_enter("visit_map", "")?;
        let r = self.v.visit_map(PMap { a, cx, key: None, nkeys: 0 });
        cx.vis_exit(idx, "visit_map", "", r)
    }
    fn visit_enum<A: EnumAccess<'de>>(self, a: A) -> Result<V::Value, A::Error> {
        let cx = self.cx;
        let idx = cx.vis_enter("visit_enum", "")?;
        let r = self.v.visit_enum(PEnum { a, cx });
        cx.vis_exit(idx, "visit_enum", "", r)
    }
}

pub struct PSeed<'c, S> {
    pub s: S,
    pub cx: &'c Ctx,
}
impl<'de, 'c, S: DeserializeSeed<'de>> DeserializeSeed<'de> for PSeed<'c, S> {
    type Value = S::Value;
    fn deserialize<D: Deserializer<'de>>(self, d: D) -> Result<S::Value, D::Error> {
        let cx = self.cx;
        let k = cx.seed_count.get();
        cx.seed_count.set(k + 1);
        if let Fault::Seed { k: fk, exit } = cx.fault.get() {
            if fk == k && !cx.has_fired() {
                if !exit {
                    cx.fire("seed", false, "");
                    return Err(<D::Error as de::Error>::custom(format_args!("injected@{k}")));
                }
                let r = self.s.deserialize(PDe { d, cx });
                if r.is_ok() && !cx.has_fired() {
                    cx.fire("seed", true, "");
                    return Err(<D::Error as de::Error>::custom(format_args!("injected@{k}")));
                }
                return r;
            }
        }
        self.s.deserialize(PDe { d, cx })
    }
}

pub struct PSeq<'c, A> {
    a: A,
    cx: &'c Ctx,
    i: usize,
}
impl<'de, 'c, A: SeqAccess<'de>> SeqAccess<'de> for PSeq<'c, A> {
    type Error = A::Error;
    fn next_element_seed<T: DeserializeSeed<'de>>(&mut self, seed: T) -> Result<Option<T::Value>, A::Error> {
        let cx = self.cx;
        cx.ev('A', "next_element", "");
        cx.path.borrow_mut().push(Seg::Idx(self.i));
        let r = self.a.next_element_seed(PSeed { s: seed, cx });
        cx.path.borrow_mut().pop();
        self.i += 1;
        cx.ev('R', match &r { Ok(Some(_)) => "some", Ok(None) => "none", Err(_) => "err" }, "");
        r
    }
    fn size_hint(&self) -> Option<usize> {
        let r = self.a.size_hint();
        self.cx.ev('A', "size_hint", &format!("{r:?}"));
        r
    }
}

pub struct PMap<'c, A> {
    a: A,
    cx: &'c Ctx,
    key: Option<String>,
    nkeys: usize,
}
impl<'de, 'c, A: MapAccess<'de>> MapAccess<'de> for PMap<'c, A> {
    type Error = A::Error;
    fn next_key_seed<K: DeserializeSeed<'de>>(&mut self, seed: K) -> Result<Option<K::Value>, A::Error> {
        let cx = self.cx;
        cx.ev('A', "next_key", "");
        cx.keycap.borrow_mut().push(None);
        cx.keyidx.borrow_mut().push(self.nkeys);
        self.nkeys += 1;
        let r = self.a.next_key_seed(PSeed { s: seed, cx });
        cx.keyidx.borrow_mut().pop();
        self.key = cx.pop_key();
        cx.ev('R', match &r { Ok(Some(_)) => "some", Ok(None) => "none", Err(_) => "err" }, "");
        r
    }
    fn next_value_seed<T: DeserializeSeed<'de>>(&mut self, seed: T) -> Result<T::Value, A::Error> {
        let cx = self.cx;
        cx.ev('A', "next_value", "");
        let k = self.key.take().unwrap_or_else(|| "<unknown-key>".to_string());
        cx.path.borrow_mut().push(Seg::Key(k));
        let r = self.a.next_value_seed(PSeed { s: seed, cx });
        cx.path.borrow_mut().pop();
        cx.ev('R', if r.is_ok() { "ok" } else { "err" }, "");
        r
    }
    /// forwarded as such (a transparent interposer must not turn `next_entry` into
    /// `next_key` + `next_value`: the library may implement it separately)
    fn next_entry_seed<K: DeserializeSeed<'de>, V: DeserializeSeed<'de>>(&mut self, kseed: K, vseed: V) -> Result<Option<(K::Value, V::Value)>, A::Error> {
        let cx = self.cx;
        cx.ev('A', "next_entry", "");
        let slot: RefCell<Option<String>> = RefCell::new(None);
        let idx = self.nkeys;
        self.nkeys += 1;
        let r = self.a.next_entry_seed(PEntryKey { s: kseed, cx, slot: &slot, idx }, PEntryVal { s: vseed, cx, slot: &slot });
        cx.ev('R', match &r { Ok(Some(_)) => "some", Ok(None) => "none", Err(_) => "err" }, "");
        r
    }
    fn size_hint(&self) -> Option<usize> {
        let r = self.a.size_hint();
        self.cx.ev('A', "size_hint", &format!("{r:?}"));
        r
    }
}

struct PEntryKey<'c, 'k, S> {
    s: S,
    cx: &'c Ctx,
    slot: &'k RefCell<Option<String>>,
    idx: usize,
}
impl<'de, 'c, 'k, S: DeserializeSeed<'de>> DeserializeSeed<'de> for PEntryKey<'c, 'k, S> {
    type Value = S::Value;
    fn deserialize<D: Deserializer<'de>>(self, d: D) -> Result<S::Value, D::Error> {
        let cx = self.cx;
        cx.keycap.borrow_mut().push(None);
        cx.keyidx.borrow_mut().push(self.idx);
        let r = PSeed { s: self.s, cx }.deserialize(d);
        cx.keyidx.borrow_mut().pop();
        *self.slot.borrow_mut() = cx.pop_key();
        r
    }
}
struct PEntryVal<'c, 'k, S> {
    s: S,
    cx: &'c Ctx,
    slot: &'k RefCell<Option<String>>,
}
impl<'de, 'c, 'k, S: DeserializeSeed<'de>> DeserializeSeed<'de> for PEntryVal<'c, 'k, S> {
    type Value = S::Value;
    fn deserialize<D: Deserializer<'de>>(self, d: D) -> Result<S::Value, D::Error> {
        let cx = self.cx;
        let k = self.slot.borrow_mut().take().unwrap_or_else(|| "<unknown-key>".to_string());
        cx.path.borrow_mut().push(Seg::Key(k));
        let r = PSeed { s: self.s, cx }.deserialize(d);
        cx.path.borrow_mut().pop();
        r
    }
}

pub struct PEnum<'c, A> {
    a: A,
    cx: &'c Ctx,
}
impl<'de, 'c, A: EnumAccess<'de>> EnumAccess<'de> for PEnum<'c, A> {
    type Error = A::Error;
    type Variant = PVariant<'c, A::Variant>;
    fn variant_seed<T: DeserializeSeed<'de>>(self, seed: T) -> Result<(T::Value, Self::Variant), A::Error> {
        let cx = self.cx;
        cx.ev('A', "variant", "");
        cx.keycap.borrow_mut().push(None);
        cx.keyidx.borrow_mut().push(0);
        let r = self.a.variant_seed(PSeed { s: seed, cx });
        cx.keyidx.borrow_mut().pop();
        let key = cx.pop_key();
        cx.ev('R', if r.is_ok() { "ok" } else { "err" }, "");
        let (v, a) = r?;
        Ok((v, PVariant { a, cx, key: key.unwrap_or_else(|| "<unknown-variant>".to_string()) }))
    }
}

pub struct PVariant<'c, A> {
    a: A,
    cx: &'c Ctx,
    key: String,
}
impl<'de, 'c, A: VariantAccess<'de>> VariantAccess<'de> for PVariant<'c, A> {
    type Error = A::Error;
    fn unit_variant(self) -> Result<(), A::Error> {
        let cx = self.cx;
        cx.ev('A', "unit_variant", "");
        let r = self.a.unit_variant();
        cx.ev('R', if r.is_ok() { "ok" } else { "err" }, "");
        r
    }
    fn newtype_variant_seed<T: DeserializeSeed<'de>>(self, seed: T) -> Result<T::Value, A::Error> {
        let cx = self.cx;
        cx.ev('A', "newtype_variant", "");
        cx.path.borrow_mut().push(Seg::Var(self.key));
        let r = self.a.newtype_variant_seed(PSeed { s: seed, cx });
        cx.path.borrow_mut().pop();
        cx.ev('R', if r.is_ok() { "ok" } else { "err" }, "");
        r
    }
    fn tuple_variant<V: Visitor<'de>>(self, len: usize, v: V) -> Result<V::Value, A::Error> {
        let cx = self.cx;
        cx.ev('A', "tuple_variant", &len.to_string());
        cx.path.borrow_mut().push(Seg::Var(self.key));
        cx.vstack.borrow_mut().push(("tuple_variant", cx.hints.borrow().len(), cx.path.borrow().len()));
        let r = self.a.tuple_variant(len, PVis { v, cx });
        cx.vstack.borrow_mut().pop();
        cx.path.borrow_mut().pop();
        cx.ev('R', if r.is_ok() { "ok" } else { "err" }, "");
        r
    }
    fn struct_variant<V: Visitor<'de>>(self, fields: &'static [&'static str], v: V) -> Result<V::Value, A::Error> {
        let cx = self.cx;
        cx.ev('A', "struct_variant", &format!("{fields:?}"));
        cx.path.borrow_mut().push(Seg::Var(self.key));
        cx.vstack.borrow_mut().push(("struct_variant", cx.hints.borrow().len(), cx.path.borrow().len()));
        let r = self.a.struct_variant(fields, PVis { v, cx });
        cx.vstack.borrow_mut().pop();
        cx.path.borrow_mut().pop();
        cx.ev('R', if r.is_ok() { "ok" } else { "err" }, "");
        r
    }
}

// ------------------------------------------------------------------------------------------------
// Serializer side
// ------------------------------------------------------------------------------------------------

/// Wraps the writer peer's value: the injection point of F-SER and the place where the
/// serializer handed to the peer is replaced by the logging proxy.
pub struct PVal<'c, 'v, T: ?Sized> {
    pub v: &'v T,
    pub cx: &'c Ctx,
}
impl<'c, 'v, T: ?Sized + Serialize> Serialize for PVal<'c, 'v, T> {
    fn serialize<S: Serializer>(&self, s: S) -> Result<S::Ok, S::Error> {
        let cx = self.cx;
        let k = cx.ser_count.get();
        cx.ser_count.set(k + 1);
        if let Fault::Ser { k: fk, exit } = cx.fault.get() {
            if fk == k && !cx.has_fired() {
                if exit {
                    cx.ser_depth.set(cx.ser_depth.get() + 1);
                    let _ = self.v.serialize(PSer { s, cx });
                    cx.ser_depth.set(cx.ser_depth.get() - 1);
                    if cx.has_fired() {
                        // a nested fault cannot fire (one fault per execution); defensive
                    }
                    cx.fire("serialize", true, "");
                    return Err(<S::Error as ser::Error>::custom(format_args!("injected@{k}")));
                }
                cx.fire("serialize", false, "");
                return Err(<S::Error as ser::Error>::custom(format_args!("injected@{k}")));
            }
        }
        cx.ser_depth.set(cx.ser_depth.get() + 1);
        let r = self.v.serialize(PSer { s, cx });
        cx.ser_depth.set(cx.ser_depth.get() - 1);
        r
    }
}

/// owned variant of `PVal` (items of `collect_seq` / `collect_map`)
pub struct POwned<'c, T> {
    v: T,
    cx: &'c Ctx,
}
impl<'c, T: Serialize> Serialize for POwned<'c, T> {
    fn serialize<S: Serializer>(&self, s: S) -> Result<S::Ok, S::Error> {
        PVal { v: &self.v, cx: self.cx }.serialize(s)
    }
}

pub struct PSer<'c, S> {
    s: S,
    cx: &'c Ctx,
}

fn sret<T, E>(cx: &Ctx, r: Result<T, E>) -> Result<T, E> {
    cx.ev('R', if r.is_ok() { "ok" } else { "err" }, "");
    r
}

macro_rules! ser_scalar {
    ($($m:ident : $t:ty),*) => {$(
        fn $m(self, x: $t) -> Result<S::Ok, S::Error> {
            self.cx.ev('S', stringify!($m), &format!("{:?}", x));
            sret(self.cx, self.s.$m(x))
        }
    )*};
}

impl<'c, S: Serializer> Serializer for PSer<'c, S> {
    type Ok = S::Ok;
    type Error = S::Error;
    type SerializeSeq = PCompound<'c, S::SerializeSeq>;
    type SerializeTuple = PCompound<'c, S::SerializeTuple>;
    type SerializeTupleStruct = PCompound<'c, S::SerializeTupleStruct>;
    type SerializeTupleVariant = PCompound<'c, S::SerializeTupleVariant>;
    type SerializeMap = PCompound<'c, S::SerializeMap>;
    type SerializeStruct = PCompound<'c, S::SerializeStruct>;
    type SerializeStructVariant = PCompound<'c, S::SerializeStructVariant>;

    ser_scalar! { serialize_bool: bool, serialize_i8: i8, serialize_i16: i16, serialize_i32: i32, serialize_i64: i64,
    serialize_i128: i128, serialize_u8: u8, serialize_u16: u16, serialize_u32: u32, serialize_u64: u64, serialize_u128: u128,
    serialize_char: char, serialize_str: &str, serialize_bytes: &[u8] }

    fn serialize_f32(self, x: f32) -> Result<S::Ok, S::Error> {
        self.cx.ev('S', "serialize_f32", &format!("{:#x}", x.to_bits()));
        sret(self.cx, self.s.serialize_f32(x))
    }
    fn serialize_f64(self, x: f64) -> Result<S::Ok, S::Error> {
        self.cx.ev('S', "serialize_f64", &format!("{:#x}", x.to_bits()));
        sret(self.cx, self.s.serialize_f64(x))
    }
    fn serialize_none(self) -> Result<S::Ok, S::Error> {
        self.cx.ev('S', "serialize_none", "");
        sret(self.cx, self.s.serialize_none())
    }
    fn serialize_some<T: ?Sized + Serialize>(self, v: &T) -> Result<S::Ok, S::Error> {
        self.cx.ev('S', "serialize_some", "");
        sret(self.cx, self.s.serialize_some(&PVal { v, cx: self.cx }))
    }
    fn serialize_unit(self) -> Result<S::Ok, S::Error> {
        self.cx.ev('S', "serialize_unit", "");
        sret(self.cx, self.s.serialize_unit())
    }
    fn serialize_unit_struct(self, name: &'static str) -> Result<S::Ok, S::Error> {
        self.cx.ev('S', "serialize_unit_struct", name);
        sret(self.cx, self.s.serialize_unit_struct(name))
    }
    fn serialize_unit_variant(self, name: &'static str, idx: u32, variant: &'static str) -> Result<S::Ok, S::Error> {
        self.cx.ev('S', "serialize_unit_variant", &format!("{name}/{idx}/{variant}"));
        sret(self.cx, self.s.serialize_unit_variant(name, idx, variant))
    }
    fn serialize_newtype_struct<T: ?Sized + Serialize>(self, name: &'static str, v: &T) -> Result<S::Ok, S::Error> {
        self.cx.ev('S', "serialize_newtype_struct", name);
        sret(self.cx, self.s.serialize_newtype_struct(name, &PVal { v, cx: self.cx }))
    }
    fn serialize_newtype_variant<T: ?Sized + Serialize>(self, name: &'static str, idx: u32, variant: &'static str, v: &T) -> Result<S::Ok, S::Error> {
        self.cx.ev('S', "serialize_newtype_variant", &format!("{name}/{idx}/{variant}"));
        sret(self.cx, self.s.serialize_newtype_variant(name, idx, variant, &PVal { v, cx: self.cx }))
    }
    fn serialize_seq(self, len: Option<usize>) -> Result<Self::SerializeSeq, S::Error> {
        self.cx.ev('S', "serialize_seq", &format!("{len:?}"));
        let r = self.s.serialize_seq(len);
        self.cx.ev('R', if r.is_ok() { "ok" } else { "err" }, "");
        Ok(PCompound { s: r?, cx: self.cx })
    }
    fn serialize_tuple(self, len: usize) -> Result<Self::SerializeTuple, S::Error> {
        self.cx.ev('S', "serialize_tuple", &len.to_string());
        let r = self.s.serialize_tuple(len);
        self.cx.ev('R', if r.is_ok() { "ok" } else { "err" }, "");
        Ok(PCompound { s: r?, cx: self.cx })
    }
    fn serialize_tuple_struct(self, name: &'static str, len: usize) -> Result<Self::SerializeTupleStruct, S::Error> {
        self.cx.ev('S', "serialize_tuple_struct", &format!("{name}/{len}"));
        let r = self.s.serialize_tuple_struct(name, len);
        self.cx.ev('R', if r.is_ok() { "ok" } else { "err" }, "");
        Ok(PCompound { s: r?, cx: self.cx })
    }
    fn serialize_tuple_variant(self, name: &'static str, idx: u32, variant: &'static str, len: usize) -> Result<Self::SerializeTupleVariant, S::Error> {
        self.cx.ev('S', "serialize_tuple_variant", &format!("{name}/{idx}/{variant}/{len}"));
        let r = self.s.serialize_tuple_variant(name, idx, variant, len);
        self.cx.ev('R', if r.is_ok() { "ok" } else { "err" }, "");
        Ok(PCompound { s: r?, cx: self.cx })
    }
    fn serialize_map(self, len: Option<usize>) -> Result<Self::SerializeMap, S::Error> {
        self.cx.ev('S', "serialize_map", &format!("{len:?}"));
        let r = self.s.serialize_map(len);
        self.cx.ev('R', if r.is_ok() { "ok" } else { "err" }, "");
        Ok(PCompound { s: r?, cx: self.cx })
    }
    fn serialize_struct(self, name: &'static str, len: usize) -> Result<Self::SerializeStruct, S::Error> {
        self.cx.ev('S', "serialize_struct", &format!("{name}/{len}"));
        let r = self.s.serialize_struct(name, len);
        self.cx.ev('R', if r.is_ok() { "ok" } else { "err" }, "");
        Ok(PCompound { s: r?, cx: self.cx })
    }
    fn serialize_struct_variant(self, name: &'static str, idx: u32, variant: &'static str, len: usize) -> Result<Self::SerializeStructVariant, S::Error> {
        self.cx.ev('S', "serialize_struct_variant", &format!("{name}/{idx}/{variant}/{len}"));
        let r = self.s.serialize_struct_variant(name, idx, variant, len);
        self.cx.ev('R', if r.is_ok() { "ok" } else { "err" }, "");
        Ok(PCompound { s: r?, cx: self.cx })
    }
    // forwarded as such: a transparent interposer must not replace the library's own
    // `collect_seq` / `collect_map` (should it override them) by serde's defaults
    fn collect_seq<I>(self, iter: I) -> Result<S::Ok, S::Error>
    where
        I: IntoIterator,
        I::Item: Serialize,
    {
        let cx = self.cx;
        cx.ev('S', "collect_seq", "");
        sret(cx, self.s.collect_seq(iter.into_iter().map(|v| POwned { v, cx })))
    }
    fn collect_map<K, V, I>(self, iter: I) -> Result<S::Ok, S::Error>
    where
        K: Serialize,
        V: Serialize,
        I: IntoIterator<Item = (K, V)>,
    {
        let cx = self.cx;
        cx.ev('S', "collect_map", "");
        sret(cx, self.s.collect_map(iter.into_iter().map(|(k, v)| (POwned { v: k, cx }, POwned { v, cx }))))
    }
    fn collect_str<T: ?Sized + fmt::Display>(self, v: &T) -> Result<S::Ok, S::Error> {
        self.cx.ev('S', "collect_str", &v.to_string());
        sret(self.cx, self.s.collect_str(v))
    }
    fn is_human_readable(&self) -> bool {
        self.s.is_human_readable()
    }
}

pub struct PCompound<'c, C> {
    s: C,
    cx: &'c Ctx,
}

impl<'c, C: ser::SerializeSeq> ser::SerializeSeq for PCompound<'c, C> {
    type Ok = C::Ok;
    type Error = C::Error;
    fn serialize_element<T: ?Sized + Serialize>(&mut self, v: &T) -> Result<(), C::Error> {
        self.cx.ev('S', "element", "");
        sret(self.cx, self.s.serialize_element(&PVal { v, cx: self.cx }))
    }
    fn end(self) -> Result<C::Ok, C::Error> {
        self.cx.ev('S', "end", "");
        sret(self.cx, self.s.end())
    }
}
impl<'c, C: ser::SerializeTuple> ser::SerializeTuple for PCompound<'c, C> {
    type Ok = C::Ok;
    type Error = C::Error;
    fn serialize_element<T: ?Sized + Serialize>(&mut self, v: &T) -> Result<(), C::Error> {
        self.cx.ev('S', "element", "");
        sret(self.cx, self.s.serialize_element(&PVal { v, cx: self.cx }))
    }
    fn end(self) -> Result<C::Ok, C::Error> {
        self.cx.ev('S', "end", "");
        sret(self.cx, self.s.end())
    }
}
impl<'c, C: ser::SerializeTupleStruct> ser::SerializeTupleStruct for PCompound<'c, C> {
    type Ok = C::Ok;
    type Error = C::Error;
    fn serialize_field<T: ?Sized + Serialize>(&mut self, v: &T) -> Result<(), C::Error> {
        self.cx.ev('S', "tfield", "");
        sret(self.cx, self.s.serialize_field(&PVal { v, cx: self.cx }))
    }
    fn end(self) -> Result<C::Ok, C::Error> {
        self.cx.ev('S', "end", "");
        sret(self.cx, self.s.end())
    }
}
impl<'c, C: ser::SerializeTupleVariant> ser::SerializeTupleVariant for PCompound<'c, C> {
    type Ok = C::Ok;
    type Error = C::Error;
    fn serialize_field<T: ?Sized + Serialize>(&mut self, v: &T) -> Result<(), C::Error> {
        self.cx.ev('S', "tfield", "");
        sret(self.cx, self.s.serialize_field(&PVal { v, cx: self.cx }))
    }
    fn end(self) -> Result<C::Ok, C::Error> {
        self.cx.ev('S', "end", "");
        sret(self.cx, self.s.end())
    }
}
impl<'c, C: ser::SerializeMap> ser::SerializeMap for PCompound<'c, C> {
    type Ok = C::Ok;
    type Error = C::Error;
    fn serialize_key<T: ?Sized + Serialize>(&mut self, v: &T) -> Result<(), C::Error> {
        self.cx.ev('S', "key", "");
        sret(self.cx, self.s.serialize_key(&PVal { v, cx: self.cx }))
    }
    fn serialize_value<T: ?Sized + Serialize>(&mut self, v: &T) -> Result<(), C::Error> {
        self.cx.ev('S', "value", "");
        sret(self.cx, self.s.serialize_value(&PVal { v, cx: self.cx }))
    }
    fn serialize_entry<K: ?Sized + Serialize, V: ?Sized + Serialize>(&mut self, k: &K, v: &V) -> Result<(), C::Error> {
        self.cx.ev('S', "entry", "");
        sret(self.cx, self.s.serialize_entry(&PVal { v: k, cx: self.cx }, &PVal { v, cx: self.cx }))
    }
    fn end(self) -> Result<C::Ok, C::Error> {
        self.cx.ev('S', "end", "");
        sret(self.cx, self.s.end())
    }
}
impl<'c, C: ser::SerializeStruct> ser::SerializeStruct for PCompound<'c, C> {
    type Ok = C::Ok;
    type Error = C::Error;
    fn serialize_field<T: ?Sized + Serialize>(&mut self, key: &'static str, v: &T) -> Result<(), C::Error> {
        self.cx.ev('S', "field", key);
        sret(self.cx, self.s.serialize_field(key, &PVal { v, cx: self.cx }))
    }
    fn skip_field(&mut self, key: &'static str) -> Result<(), C::Error> {
        self.cx.ev('S', "skip_field", key);
        sret(self.cx, self.s.skip_field(key))
    }
    fn end(self) -> Result<C::Ok, C::Error> {
        self.cx.ev('S', "end", "");
        sret(self.cx, self.s.end())
    }
}
impl<'c, C: ser::SerializeStructVariant> ser::SerializeStructVariant for PCompound<'c, C> {
    type Ok = C::Ok;
    type Error = C::Error;
    fn serialize_field<T: ?Sized + Serialize>(&mut self, key: &'static str, v: &T) -> Result<(), C::Error> {
        self.cx.ev('S', "field", key);
        sret(self.cx, self.s.serialize_field(key, &PVal { v, cx: self.cx }))
    }
    fn skip_field(&mut self, key: &'static str) -> Result<(), C::Error> {
        self.cx.ev('S', "skip_field", key);
        sret(self.cx, self.s.skip_field(key))
    }
    fn end(self) -> Result<C::Ok, C::Error> {
        self.cx.ev('S', "end", "");
        sret(self.cx, self.s.end())
    }
}

// ------------------------------------------------------------------------------------------------
// Sink
// ------------------------------------------------------------------------------------------------

/// `fmt::Write` sink that fails at the j-th `write_str` (F-SINK) and records what it accepted.
pub struct Sink {
    pub buf: String,
    pub calls: u32,
    pub fail_at: Option<u32>,
    pub failed: bool,
}
impl Sink {
    pub fn new(fail_at: Option<u32>) -> Self {
        Sink { buf: String::new(), calls: 0, fail_at, failed: false }
    }
}
impl fmt::Write for Sink {
    fn write_str(&mut self, s: &str) -> fmt::Result {
        let j = self.calls;
        self.calls += 1;
        if self.fail_at == Some(j) {
            self.failed = true;
            return Err(fmt::Error);
        }
        self.buf.push_str(s);
        Ok(())
    }
}
