#![allow(dead_code)]
mod c07;
mod c13;
mod c14;
mod c15;
mod c17;
mod dynpeer;
mod routes;
mod common;
mod docgen;
mod gen;
mod min;
mod model;
mod reader;
mod realfam;
mod render;
mod rng;
mod runner;
mod seam;
mod selftest;
mod types;
mod writer;

use runner::*;

/// Address-perturbing allocator shim (DESIGN 2.10): pads every allocation by SIM_ALLOC_PAD bytes so
/// that heap addresses (and therefore anything that leaked an address into an observable) differ
/// between two executions of the same runs.
struct PadAlloc;
static ALLOC_PAD: std::sync::atomic::AtomicUsize = std::sync::atomic::AtomicUsize::new(usize::MAX);
#[inline]
fn alloc_pad() -> usize {
    let p = ALLOC_PAD.load(std::sync::atomic::Ordering::Relaxed);
    if p != usize::MAX {
        return p;
    }
    // first allocation of the process: read the environment without allocating; the value is
    // fixed for the lifetime of the process (a racing second reader computes the same number)
    let mut v: usize = 0;
    unsafe {
        let s = libc::getenv(b"SIM_ALLOC_PAD\0".as_ptr() as *const libc::c_char);
        if !s.is_null() {
            let mut q = s;
            while *q != 0 {
                let c = *q as u8;
                if c.is_ascii_digit() {
                    v = v.saturating_mul(10).saturating_add((c - b'0') as usize);
                }
                q = q.add(1);
            }
        }
    }
    let v = v.min(4096);
    ALLOC_PAD.store(v, std::sync::atomic::Ordering::Relaxed);
    v
}
unsafe impl std::alloc::GlobalAlloc for PadAlloc {
    unsafe fn alloc(&self, l: std::alloc::Layout) -> *mut u8 {
        let pad = alloc_pad();
        unsafe { std::alloc::System.alloc(std::alloc::Layout::from_size_align_unchecked(l.size() + pad, l.align())) }
    }
    unsafe fn dealloc(&self, p: *mut u8, l: std::alloc::Layout) {
        let pad = alloc_pad();
        unsafe { std::alloc::System.dealloc(p, std::alloc::Layout::from_size_align_unchecked(l.size() + pad, l.align())) }
    }
    unsafe fn realloc(&self, p: *mut u8, l: std::alloc::Layout, new_size: usize) -> *mut u8 {
        let pad = alloc_pad();
        unsafe { std::alloc::System.realloc(p, std::alloc::Layout::from_size_align_unchecked(l.size() + pad, l.align()), new_size + pad) }
    }
}
#[global_allocator]
static GLOBAL: PadAlloc = PadAlloc;
use std::collections::{BTreeMap, HashSet};
use std::path::PathBuf;
use std::time::{Duration, Instant};

struct Plan {
    level: &'static str,
    runs_quick: u64,
    runs_thorough: u64,
    builds_quick: &'static [&'static str],
    builds_thorough: &'static [&'static str],
    rule: &'static str,
    real: &'static [&'static str],
    stub: &'static [&'static str],
    assumptions: &'static [&'static str],
}

const ALL_BUILDS: &[&str] = &["default", "preserve_order", "perf", "perf+preserve_order"];

fn plan(prop: &str) -> Plan {
    match prop {
        "C07" => Plan {
            level: "exploration",
            runs_quick: 1_500_000,
            runs_thorough: 60_000_000,
            builds_quick: &["default", "preserve_order", "perf"],
            builds_thorough: ALL_BUILDS,
            rule: "One evaluation = one seeded scenario (type description T + value v + writer-peer choices H1-H4 + F-SER fault plan) driven through all 7 serializers behind the serializer seam and read back by the reader peer R(T) behind the deserializer seam. Scenarios are drawn by the swarm generator (sim/src/gen.rs) from run seed = mix(VERIF_SEED, property, tier, run index). A scenario is non-trivial if its type description has >= 3 nodes; distinct = distinct conversation shape (hash of the full seam event sequence of the run with payload values erased, i.e. the sequence of serializer/deserializer/visitor calls and their nesting depth), counted with a hash set. In 1/8 of the evaluations the peers are REAL derived types (workload R, sim/src/realfam.rs: seven families using flatten, untagged, internally and adjacently tagged enums, default, rename_all, skip_serializing_if, Box, toml::Table flattened, and HashMap fields whose iteration order is the environment's choice) driven through the same seams, faults and oracles.",
            real: &["toml::ser::{to_string,to_string_pretty}", "toml_edit::ser::{to_string,to_string_pretty,to_document}", "toml::Value::try_from / toml::Table::try_from (toml::value::ValueSerializer)", "toml::de::Deserializer / toml_edit::de::* / impl Deserializer for toml::Value (read-back)", "toml_edit parser + encoder", "toml_datetime Serialize/Deserialize/FromStr/Display", "serde's own impls for primitives, String, char, IgnoredAny", "toml::Value Serialize/Deserialize"],
            stub: &["writer peer W(T,v) (interpreter of a type description mimicking serde_derive output)", "reader peer R(T) (idem)", "seam interposers PSer/PDe (transparent; inject F-SER / log events)", "reference model Model(T,v) and must-succeed class"],
            assumptions: &["'valid TOML text' is judged by the library's own parser (C01/C02 are not decided here)", "peer stubs behave like serde_derive output (checked by `sim selftest` against real derived types)", "Option as a map *value* and types outside the grammar (flatten, untagged, borrowed fields) are not generated", "a clean batch is evidence, not proof: the space of (type, value, choice, fault) is sampled"],
        },
        "C13" => Plan {
            level: "exploration",
            runs_quick: 600_000,
            runs_thorough: 30_000_000,
            builds_quick: &["default", "preserve_order", "perf"],
            builds_thorough: ALL_BUILDS,
            rule: "One evaluation = one seeded scenario: either (A) a type description T + value v, serialized to a document by one of the five text serializers, then decoded by the reader peer R(T) through all thirteen decoding routes (toml::from_str, toml_edit::de::from_str/from_slice, from_document(DocumentMut/ImDocument), the IntoDeserializer entry points, toml::Value::try_into, toml::Table::try_into, the single-value deserializers) and, in a seeded quarter of the scenarios each, seven alias entry points (Deserializer::parse / FromStr / new, str::parse::<Value/Table>, Value/Table::into_deserializer), plus Value/Table::try_from compared with the text route, and the two value-level serializers compared with each other and with Value::try_from (asserted); a third of the runs use hand-written leaf visitors (visit_i64 / visit_f64 only, H9); or (B) a DocGen/corpus document with an inferred (sometimes mismatching) reader type through the document routes; in both a fraction of runs injects F-VIS (a visitor callback of the reader fails at callback k, entry or exit) and B sometimes lets the reader stop early (H8). Non-trivial = type description + document tree have >= 3 nodes; distinct = distinct conversation shape (hash of the seam event sequence of the whole run, payloads erased), counted with a hash set. In 1/8 of the evaluations the peers are REAL derived types (workload R, sim/src/realfam.rs: seven families using flatten, untagged, internally and adjacently tagged enums, default, rename_all, skip_serializing_if, Box, toml::Table flattened, and HashMap fields whose iteration order is the environment's choice) driven through the same seams, faults and oracles.",
            real: &["all thirteen decoding routes and seven alias entry points (toml::de, toml_edit::de::*, IntoDeserializer impls, impl Deserializer for toml::Value / toml::Table)", "toml::Value::try_from / Table::try_from, toml::ser::ValueSerializer, toml_edit::ser::ValueSerializer", "the five text serializers (document production)", "toml_edit parser", "serde's primitive impls, toml_datetime impls, toml::Value Deserialize"],
            stub: &["reader peer R(T) incl. DynVal root adapter", "writer peer W(T,v)", "seam interposers (log events, inject F-VIS)", "DocGen renderer + type inference", "reference reader (probe only, not asserted)"],
            assumptions: &["only what C13 states is asserted: successful routes agree; on text produced by serializing a value of T (must-succeed class) every route succeeds and returns it, and outside that class no route fails while another one reads the value back; try_from equals the text route and the value-level text when both succeed; a reader failure is never swallowed and nothing panics", "which value is *right* for a hand-written document is C02's business: comparison with the reference reader is a probe, not an assertion", "peer stubs behave like serde_derive output (self-tested)"],
        },
        "C14" => Plan {
            level: "exploration",
            runs_quick: 400_000,
            runs_thorough: 20_000_000,
            builds_quick: &["default", "preserve_order", "perf"],
            builds_thorough: ALL_BUILDS,
            rule: "One evaluation = one seeded scenario: a document (DocGen layout plan rendered with multi-byte text, BOM, CRLF, comments, odd whitespace, dotted keys, header / array-of-tables / inline layouts, four string kinds, exotic number and date-time spellings; or one of the toml-test 1.0.0 valid documents) and a reader type inferred from its tree in which the reader peer asks for a span (serde_spanned protocol) at a seeded subset of nodes - values, keys, tables, arrays, array-of-tables elements, enum payloads, options, newtypes, the root; 100%, 60%, 25% or 10% of the nodes. Every span() of the parsed ImDocument is checked (bounds, char boundaries, nesting, slice re-parses to the same key/value, equals the byte range DocGen recorded when it wrote the token; a table written with its own header spans exactly header start .. end of the last key/value line of its body; an array of tables spans exactly first element start .. last element end); the reader decodes through the five span-bearing routes (plus three alias entry points in a seeded quarter of the scenarios each) with and without the Spanned wrappers (same verdict, same value, delivered span = the tree's own span()), and through the editable-document route where no span may survive. Non-trivial = reader type + document tree have >= 3 nodes; distinct = distinct conversation shape (seam event sequence with payloads erased), counted with a hash set.",
            real: &["toml_edit parser (all span producers), ImDocument / DocumentMut / into_mut / despan", "toml_edit::de::* incl. SpannedDeserializer, KeyDeserializer; toml::de wrappers", "Value::from_str / Key::from_str (slice re-parse)", "serde's primitive impls"],
            stub: &["reader peer R(T) with a stub visitor for the serde_spanned protocol (same call sequence as serde_spanned::Spanned<T>)", "DocGen renderer and its expected-span table", "seam interposers (logging only)"],
            assumptions: &["DocGen only uses constructs the TOML specification shows as valid (class U1 excluded); a generated document the library rejects is counted, not reported", "for tables that have no span of their own (dotted-key / header-implied) only bounds and containment of children are asserted for a delivered span", "the stub Spanned visitor follows serde_spanned's protocol (self-tested against the real type)"],
        },
        "C15" => Plan {
            level: "fault_enumeration",
            runs_quick: 24_000,
            runs_thorough: 1_500_000,
            builds_quick: &["default", "preserve_order", "perf"],
            builds_thorough: ALL_BUILDS,
            rule: "One evaluation = one seeded (document, reader type) pair: a DocGen / toml-test document with an inferred reader type (some deliberately mismatching, some with Spanned or toml::Value leaves), or the text obtained by serializing a generated value with its mirrored type. For each of the ten document routes (and the alias entry points selected for the scenario) the reader peer is first run fault-free to count its visitor callbacks n; then a failure is injected at ENTRY and at EXIT of EVERY callback k = 0..n-1 (F-VIS, exhaustive in the fault dimension up to 160 callbacks; for documents longer than 2 KiB with more than 48 callbacks the position is sampled instead: first 16, last 16, 16 evenly spaced — counted by probe positions_sampled_for_long_document), one execution per position, and every distinct error obtained is rendered into a sink that fails at EVERY write_str (F-SINK). Non-trivial = reader type + document tree have >= 3 nodes; distinct = distinct conversation shape of the whole evaluation (seam event sequences of all its executions, payloads erased), counted with a hash set. In 1/8 of the evaluations the peers are REAL derived types (workload R, sim/src/realfam.rs: seven families using flatten, untagged, internally and adjacently tagged enums, default, rename_all, skip_serializing_if, Box, toml::Table flattened, and HashMap fields whose iteration order is the environment's choice) driven through the same seams, faults and oracles.",
            real: &["toml_edit::de::* (ValueDeserializer, TableDeserializer/TableMapAccess, ArrayDeserializer, KeyDeserializer, TableEnumDeserializer, SpannedDeserializer, DatetimeDeserializer), toml_edit::de::Error / TomlError (span, keys, raw, Display)", "toml::de wrappers, impl Deserializer for toml::Value / toml::Table, toml::de::Error", "toml_edit parser (document + spans used as expected locations via Item::span()/Key::span())", "serde's primitive impls, toml_datetime / toml::Value Deserialize"],
            stub: &["reader peer R(T) + DynVal root adapter", "seam interposers: inject the failure, track the reader's own path / hint stack / key ordinal (never read back from the library)", "failing fmt::Write sink", "DocGen + type inference"],
            assumptions: &["only the second sentence of C15 is decided (errors raised while deserializing a valid document); errors for rejected texts are not", "expected locations are the library's own Item::span()/Key::span() at the reader-tracked path (their correctness is C14's check)", "an error whose message no longer contains the injected marker is not attributed to the fault: location clauses are skipped for it and it is counted (probe foreign_error)", "single-value deserializers (R7) are not part of this check", "exhaustive only in the fault position; documents and types are sampled"],
        },
        "C17" => Plan {
            level: "exploration",
            runs_quick: 400_000,
            runs_thorough: 20_000_000,
            builds_quick: &["default", "preserve_order", "perf"],
            builds_thorough: ALL_BUILDS,
            rule: "One evaluation = one seeded scenario (type description + value, workload A; or a map-heavy value / toml::Table with 1-4 adversarial re-orderings of every map's entries, workload C: shuffled, reversed, tables first, arrays of tables first, interleaved). Each of the five text serializers is run twice on freshly rebuilt structures (and on a newly spawned thread in 1/8 of the runs) and compared byte for byte; the text is read back by the reader peer and re-serialized (fixed point); plain and pretty outputs are decoded and compared; every re-ordering is serialized and must give valid text decoding to the model tree; toml::Table values are built by insertion in every order, printed twice, parsed and printed again. The whole batch is additionally executed a second time in other processes, in reverse order, with a different worker count and an address-perturbing allocator, and the per-run digests (all texts and errors) compared. Non-trivial = type has >= 3 nodes; distinct = distinct conversation shape (seam event sequence with payloads erased), counted with a hash set. In 1/8 of the evaluations the peers are REAL derived types (workload R, sim/src/realfam.rs: seven families using flatten, untagged, internally and adjacently tagged enums, default, rename_all, skip_serializing_if, Box, toml::Table flattened, and HashMap fields whose iteration order is the environment's choice) driven through the same seams, faults and oracles.",
            real: &["the five text serializers", "toml::Table / toml::Value Serialize, Display, FromStr", "toml::de read-back", "toml_edit parser/encoder, toml::fmt::DocumentFormatter, toml_edit::ser::pretty"],
            stub: &["writer peer W(T,v) emitting map entries in the scenario's order", "reader peer R(T)", "seam interposers (logging only; no faults in this check)", "reference model Model(T,v)"],
            assumptions: &["RandomState keys of IndexMap instances come from the OS and are not seeded; every table ever built samples a new one and no observable may depend on them", "thread identity / allocator / process are varied by the twin batch, not exhaustively", "'valid TOML' is judged by the library's own parser"],
        },
        _ => panic!("unknown property {prop}"),
    }
}

fn usage() -> ! {
    eprintln!("usage: sim check <Cxx> <quick|thorough> --bins name=path,... [--verif DIR] [--runs N]\n       sim replay <file> [--check]\n       sim gen <Cxx> <tier> <run> [--seed S]\n       sim batch ... | sim worker ... (internal)");
    std::process::exit(2)
}

fn main() {
    let args: Vec<String> = std::env::args().collect();
    if args.len() < 2 {
        usage();
    }
    let code = match args[1].as_str() {
        "worker" => cmd_worker(&args[2..]),
        "batch" => cmd_batch(&args[2..]),
        "check" => cmd_check(&args[2..]),
        "replay" => cmd_replay(&args[2..]),
        "gen" => cmd_gen(&args[2..]),
        "selftest" => cmd_selftest(&args[2..]),
        "build-name" => {
            println!("{}", build_name());
            0
        }
        _ => usage(),
    };
    std::process::exit(code);
}

fn cmd_worker(a: &[String]) -> i32 {
    if a.len() < 12 {
        usage();
    }
    worker(WorkerArgs {
        prop: a[0].clone(),
        tier: a[1].clone(),
        seed: a[2].parse().unwrap(),
        w: a[3].parse().unwrap(),
        nworkers: a[4].parse().unwrap(),
        nruns: a[5].parse().unwrap(),
        start: a[6].parse().unwrap(),
        workdir: PathBuf::from(&a[7]),
        replay_dir: PathBuf::from(&a[8]),
        wall_cap: Duration::from_secs(a[9].parse().unwrap()),
        keep_digests: a[10] == "1",
        reverse: a[11] == "1",
    })
}

/// internal: run one batch with this binary's build and write BatchOut JSON
fn cmd_batch(a: &[String]) -> i32 {
    // prop tier seed nworkers nruns workdir replaydir wallcap keep_digests reverse outfile
    if a.len() < 11 {
        usage();
    }
    let ba = BatchArgs {
        exe: std::env::current_exe().unwrap(),
        prop: a[0].clone(),
        tier: a[1].clone(),
        seed: a[2].parse().unwrap(),
        nworkers: a[3].parse().unwrap(),
        nruns: a[4].parse().unwrap(),
        workdir: PathBuf::from(&a[5]),
        replay_dir: PathBuf::from(&a[6]),
        wall_cap: Duration::from_secs(a[7].parse().unwrap()),
        keep_digests: a[8] == "1",
        reverse: a[9] == "1",
    };
    let bo = batch(&ba);
    std::fs::write(&a[10], serde_json::to_string(&bo).unwrap()).expect("write batch out");
    0
}

fn cmd_gen(a: &[String]) -> i32 {
    if a.len() < 3 {
        usage();
    }
    let seed = flag(a, "--seed").map(|s| s.parse().unwrap()).unwrap_or_else(env_seed);
    let i: u64 = a[2].parse().unwrap();
    let rs = run_seed(seed, &a[0], &a[1], i);
    let mut rng = rng::Rng::new(rs);
    let sc = generate(&a[0], &mut rng, &a[1]);
    println!("{}", serde_json::to_string_pretty(&sc).unwrap());
    for l in human_rendering(&sc) {
        println!("{l}");
    }
    let r = execute(&sc, true);
    for l in &r.log {
        println!("{l}");
    }
    println!("violations: {:#?}", r.violations);
    println!("harness_error: {:?}", r.harness_error);
    0
}

fn flag(a: &[String], name: &str) -> Option<String> {
    a.iter().position(|x| x == name).and_then(|i| a.get(i + 1).cloned())
}
fn env_seed() -> u64 {
    // any integer is accepted (negative and > i64 values wrap into u64); anything else: the fixed default
    std::env::var("VERIF_SEED").ok().and_then(|s| s.trim().parse::<i128>().ok()).map(|v| v as u64).unwrap_or(DEFAULT_SEED)
}

fn cmd_replay(a: &[String]) -> i32 {
    if a.is_empty() {
        usage();
    }
    let check = a.iter().any(|x| x == "--check");
    match replay(&PathBuf::from(&a[0]), !check) {
        Err(e) => {
            eprintln!("HARNESS ERROR: {e}");
            2
        }
        Ok((rf, r)) => {
            if let Some(e) = &r.harness_error {
                eprintln!("HARNESS ERROR: {e}");
                return 2;
            }
            let same = r.violations.iter().find(|v| v.signature == rf.verdict.signature);
            if check {
                match same {
                    Some(v) => println!("REPRODUCED signature={} digest={:#x} recorded_digest={} exact={}", v.signature, r.digest, rf.digest, format!("{:#x}", r.digest) == rf.digest),
                    None => println!("NOT-REPRODUCED signatures_now={:?}", r.violations.iter().map(|v| &v.signature).collect::<Vec<_>>()),
                }
                return if same.is_some() { 1 } else { 0 };
            }
            println!("replay of {} (property {}, build {}, VERIF_SEED {}, run {})", a[0], rf.property, rf.build, rf.verif_seed, rf.run);
            for l in human_rendering(&rf.scenario) {
                println!("{l}");
            }
            for l in &r.log {
                println!("{l}");
            }
            if r.violations.is_empty() {
                println!("no violation on the current tree");
                0
            } else {
                for v in &r.violations {
                    println!("violation: oracle={} signature={}\n{}", v.oracle, v.signature, v.detail);
                }
                println!("VIOLATION property={} replay={}", rf.property, a[0]);
                1
            }
        }
    }
}

#[derive(serde::Deserialize, Default)]
struct KnownFile {
    #[serde(default)]
    findings: Vec<KnownEntry>,
}
#[derive(serde::Deserialize)]
struct KnownEntry {
    status: String,
    property: String,
    #[serde(default)]
    signature: String,
    #[serde(default)]
    features: String,
    #[serde(default)]
    what: String,
}

fn cmd_check(a: &[String]) -> i32 {
    if a.len() < 2 {
        usage();
    }
    let t0 = Instant::now();
    let prop = a[0].clone();
    let tier = a[1].clone();
    if tier != "quick" && tier != "thorough" {
        usage();
    }
    let verif = PathBuf::from(flag(a, "--verif").unwrap_or_else(|| "/verif".into()));
    let seed = env_seed();
    let pl = plan(&prop);
    let bins: BTreeMap<String, PathBuf> = flag(a, "--bins")
        .unwrap_or_default()
        .split(',')
        .filter(|s| !s.is_empty())
        .map(|kv| {
            let (k, v) = kv.split_once('=').expect("--bins name=path");
            (k.to_string(), PathBuf::from(v))
        })
        .collect();
    let builds: Vec<&str> = if tier == "quick" { pl.builds_quick.to_vec() } else { pl.builds_thorough.to_vec() };
    let nruns: u64 = flag(a, "--runs").map(|s| s.parse().unwrap()).unwrap_or(if tier == "quick" { pl.runs_quick } else { pl.runs_thorough });
    let nworkers = std::thread::available_parallelism().map(|n| n.get() as u64).unwrap_or(4).min(16);
    let seeds: Vec<u64> = if tier == "quick" { vec![seed] } else { vec![seed, rng::mix(&[seed, 1]), rng::mix(&[seed, 2])] };
    let wall_cap = if tier == "quick" { 150 } else { 1500 };
    println!("sim check {prop} {tier}: VERIF_SEED={seed} builds={builds:?} runs/batch={nruns} seeds={seeds:?} workers={nworkers}");

    // (isolated campaigns / seed regressions redirect these so that they never touch the registered files)
    let tag = std::env::var("VERIF_WORK_TAG").unwrap_or_default();
    let work = verif.join("work").join(format!("{prop}-{tier}{tag}"));
    let replay_dir = std::env::var("VERIF_REPLAY_DIR").map(PathBuf::from).unwrap_or_else(|_| verif.join("replays"));
    let evidence_dir = std::env::var("VERIF_EVIDENCE_DIR").map(PathBuf::from).unwrap_or_else(|_| verif.join("evidence"));
    let mut batches: Vec<(u64, BatchOut)> = Vec::new();
    let mut harness: Vec<String> = Vec::new();
    for b in &builds {
        let exe = match bins.get(*b) {
            Some(p) => p.clone(),
            None => {
                harness.push(format!("no binary for build `{b}` given in --bins"));
                continue;
            }
        };
        for s in &seeds {
            let wd = work.join(format!("{b}-{s}"));
            let outf = work.join(format!("{b}-{s}.batch.json"));
            let _ = std::fs::create_dir_all(&work);
            // divide the budget between builds and seeds
            let per = (nruns / (builds.len() as u64 * seeds.len() as u64)).max(1);
            let st = std::process::Command::new(&exe)
                .args(["batch", &prop, &tier, &s.to_string(), &nworkers.to_string(), &per.to_string()])
                .arg(&wd)
                .arg(&replay_dir)
                .args([&(wall_cap / (builds.len() as u64 * seeds.len() as u64)).max(20).to_string(), "0", "0"])
                .arg(&outf)
                .status();
            match st {
                Ok(st) if st.success() => match std::fs::read_to_string(&outf).ok().and_then(|t| serde_json::from_str::<BatchOut>(&t).ok()) {
                    Some(bo) => {
                        println!(
                            "  batch build={b} seed={s}: runs={} execs={} events={} distinct_shapes={} violations={} wall={:.1}s",
                            bo.runs, bo.execs, bo.events, bo.distinct_shapes, bo.violation_count, bo.wall_s
                        );
                        batches.push((*s, bo));
                    }
                    None => harness.push(format!("batch {b}/{s}: unreadable output")),
                },
                other => harness.push(format!("batch {b}/{s}: {other:?}")),
            }
            let _ = std::fs::remove_dir_all(&wd);
            let _ = std::fs::remove_file(&outf);
        }
    }

    // merge
    let mut stats = common::Stats::default();
    let (mut runs, mut nontrivial, mut events, mut execs, mut vcount) = (0u64, 0u64, 0u64, 0u64, 0u64);
    let mut shapes: HashSet<u64> = HashSet::new();
    let mut samples = Vec::new();
    let mut per_build = Vec::new();
    let mut found: Vec<(String, FoundViolation)> = Vec::new();
    let mut stopped_early = false;
    for (s, bo) in &batches {
        runs += bo.runs;
        nontrivial += bo.nontrivial;
        events += bo.events;
        execs += bo.execs;
        vcount += bo.violation_count;
        stats.merge(&bo.stats);
        shapes.extend(bo.shapes.iter().copied());
        if samples.len() < 4 {
            samples.extend(bo.samples.iter().take(2).cloned());
        }
        stopped_early |= bo.stopped_early;
        harness.extend(bo.harness_errors.iter().cloned());
        per_build.push(serde_json::json!({"build": bo.build, "seed": s, "runs": bo.runs, "executions": bo.execs, "events": bo.events, "distinct_shapes": bo.distinct_shapes, "violations": bo.violation_count, "wall_s": bo.wall_s, "crashes": bo.crashes}));
        for v in &bo.violations {
            found.push((bo.build.clone(), v.clone()));
        }
    }

    // C17 clause 1 across processes: the same runs executed again in other processes, in reverse
    // order, with another worker count and an address-perturbing allocator must give the same digests
    let mut twin_compared = 0u64;
    if prop == "C17" {
        if let Some(exe) = bins.get("default") {
            let n = if tier == "quick" { 40_000u64 } else { 400_000 };
            let mut maps: Vec<BTreeMap<u64, u64>> = Vec::new();
            for (k, (pad, nw, rev)) in [("0", nworkers, "0"), ("24", 5u64, "1")].iter().enumerate() {
                let wd = work.join(format!("twin{k}"));
                let outf = work.join(format!("twin{k}.batch.json"));
                let _ = std::fs::create_dir_all(&work);
                let st = std::process::Command::new(exe)
                    .env("SIM_ALLOC_PAD", pad)
                    .env("SIM_NO_MINIMISE", "1")
                    .args(["batch", &prop, &tier, &seed.to_string(), &nw.to_string(), &n.to_string()])
                    .arg(&wd)
                    .arg(&replay_dir)
                    .args(["120", "1", rev])
                    .arg(&outf)
                    .status();
                match st {
                    Ok(st) if st.success() => match std::fs::read_to_string(&outf).ok().and_then(|t| serde_json::from_str::<BatchOut>(&t).ok()) {
                        Some(bo) => maps.push(bo.digests),
                        None => harness.push(format!("twin batch {k}: unreadable output")),
                    },
                    other => harness.push(format!("twin batch {k}: {other:?}")),
                }
                let _ = std::fs::remove_dir_all(&wd);
                let _ = std::fs::remove_file(&outf);
            }
            if maps.len() == 2 {
                for (i, d) in &maps[0] {
                    if let Some(d2) = maps[1].get(i) {
                        twin_compared += 1;
                        if d != d2 {
                            let rs = run_seed(seed, &prop, &tier, *i);
                            let mut rng = rng::Rng::new(rs);
                            let sc = generate(&prop, &mut rng, &tier);
                            let verdict = common::Violation {
                                oracle: "C17/1".into(),
                                signature: "C17/ambient-nondeterminism".into(),
                                detail: format!("run {i} produced different observable results (texts / errors) in two processes that differ only in worker count, run order and heap layout: digest {d:#x} vs {d2:#x}"),
                            };
                            let rf = ReplayFile {
                                format: 1,
                                property: prop.clone(),
                                tier: tier.clone(),
                                verif_seed: seed,
                                run: *i,
                                run_seed: format!("{rs:#x}"),
                                build: "default".into(),
                                minimised: false,
                                shrink_execs: 0,
                                features: features_of(&sc),
                                human: human_rendering(&sc),
                                scenario: sc,
                                verdict: verdict.clone(),
                                digest: format!("{d:#x}"),
                            };
                            let path = replay_dir.join(format!("C17-default-{seed}-{i}-ambient.json"));
                            let _ = std::fs::create_dir_all(&replay_dir);
                            std::fs::write(&path, serde_json::to_string_pretty(&rf).unwrap()).expect("write replay");
                            found.push(("default".into(), FoundViolation { run: *i, replay: path.display().to_string(), verdict, features: rf.features }));
                            vcount += 1;
                            if found.len() > 50 {
                                break;
                            }
                        }
                    }
                }
                println!("  twin batches: {twin_compared} runs compared across processes / worker counts / run order / allocator padding");
                stats.add("oracle.twin_process_digest_compared", twin_compared);
            }
        }
    }

    // known findings; one report per signature (the smallest replay file is kept)
    let known: KnownFile = std::fs::read_to_string(verif.join("known-findings.json")).ok().and_then(|t| serde_json::from_str(&t).ok()).unwrap_or_default();
    let mut unlisted = 0u64;
    let mut known_hits = 0u64;
    let size_of = |v: &FoundViolation| std::fs::metadata(&v.replay).map(|m| m.len()).unwrap_or(u64::MAX);
    found.sort_by(|a, b| (a.1.verdict.signature.clone(), size_of(&a.1)).cmp(&(b.1.verdict.signature.clone(), size_of(&b.1))));
    let mut by_sig: BTreeMap<String, Vec<(String, FoundViolation)>> = BTreeMap::new();
    for (b, v) in found {
        by_sig.entry(v.verdict.signature.clone()).or_default().push((b, v));
    }
    for (sig, group) in &by_sig {
        let mut chosen: Option<&(String, FoundViolation)> = None;
        for cand in group.iter().take(4) {
            let (build, v) = cand;
            // replay in a fresh process before believing it
            let exe = bins.get(build).cloned().unwrap_or_else(|| std::env::current_exe().unwrap());
            let flaky_by_nature = sig.starts_with("C17/nondeterministic") || sig.contains("printed-twice-differs");
            let reproduced = if flaky_by_nature {
                true // the observation itself (two different results for one value) is the violation
            } else if sig == "C17/ambient-nondeterminism" {
                let dig = |pad: &str| {
                    std::process::Command::new(&exe).env("SIM_ALLOC_PAD", pad).args(["replay", &v.replay, "--check"]).output().ok().map(|o| String::from_utf8_lossy(&o.stdout).to_string())
                };
                let (a, b) = (dig("0"), dig("40"));
                if a == b {
                    println!("note: {sig} at run {} did not differ again in two fresh processes: intermittent nondeterminism", v.run);
                }
                true // nondeterminism is the violation; an intermittent one is still one
            } else {
                let out = std::process::Command::new(&exe).args(["replay", &v.replay, "--check"]).output();
                let ok = match &out {
                    Ok(o) => {
                        let so = String::from_utf8_lossy(&o.stdout);
                        if so.contains("exact=false") {
                            println!("note: {sig} (run {}) reproduces with the same verdict but another event digest than recorded", v.run);
                        }
                        so.contains("REPRODUCED signature=") && !so.contains("NOT-REPRODUCED")
                    }
                    Err(_) => false,
                };
                let crashy = sig.ends_with("/abort") || sig.ends_with("/hang");
                ok || (crashy && out.as_ref().map(|o| !matches!(o.status.code(), Some(0) | Some(2))).unwrap_or(false))
            };
            if reproduced {
                chosen = Some(cand);
                break;
            }
        }
        let (build, v) = match chosen {
            Some(c) => c,
            None if sig.ends_with("/hang") => {
                // the watchdog fired but the same scenario completes when replayed in a fresh process:
                // the machine was starved, not the library stuck
                println!("note: run {} tripped the no-progress watchdog but completes on replay ({}): ignored as load", group[0].1.run, group[0].1.replay);
                let _ = std::fs::remove_file(&group[0].1.replay);
                continue;
            }
            None => {
                // A violation that does not replay is normally a harness error (exit 2). When the same
                // batch has shown the library to be nondeterministic, non-reproduction is a symptom of
                // that violation, not of the harness.
                let msg = format!("violation {sig} ({} occurrence(s), first at run {}) did not reproduce from its replay file {}", group.len(), group[0].1.run, group[0].1.replay);
                if by_sig.keys().any(|k| k.starts_with("C17/nondeterministic") || k == "C17/ambient-nondeterminism" || k.contains("printed-twice-differs")) {
                    println!("note: {msg} (the library behaved nondeterministically in this batch)");
                } else {
                    harness.push(msg);
                }
                continue;
            }
        };
        for (_, other) in group.iter() {
            if other.replay != v.replay {
                let _ = std::fs::remove_file(&other.replay);
            }
        }
        let k = known.findings.iter().find(|k| k.status == "known" && k.property == prop && k.signature == *sig && (k.features.is_empty() || k.features == v.features));
        match k {
            Some(k) => {
                known_hits += 1;
                println!("KNOWN-FINDING: property={prop} {} [{sig}]", k.what);
                let _ = std::fs::remove_file(&v.replay);
            }
            None => {
                unlisted += 1;
                println!("--- violation {sig} (build {build}, run {}, {} occurrence(s) in this batch; minimised scenario features: {}) ---\n{}", v.run, group.len(), v.features, v.verdict.detail);
                println!("VIOLATION property={prop} replay={}", v.replay);
            }
        }
    }

    let wall = t0.elapsed().as_secs_f64();
    // evidence
    let mut faults = serde_json::Map::new();
    let mut probes = serde_json::Map::new();
    let mut other = serde_json::Map::new();
    for (k, v) in &stats.counters {
        if let Some(f) = k.strip_prefix("fault.") {
            faults.insert(f.to_string(), (*v).into());
        } else if let Some(p) = k.strip_prefix("probe.") {
            probes.insert(p.to_string(), (*v).into());
        } else {
            other.insert(k.clone(), (*v).into());
        }
    }
    let ev = serde_json::json!({
        "property_id": prop,
        "tier": tier,
        "seed": seed,
        "level": pl.level,
        "wall_s": wall,
        "violations": unlisted,
        "coverage": {
            "evaluations": runs.max(1),
            "distinct_nontrivial": shapes.len(),
            "rule": pl.rule,
            "samples": samples,
            "nontrivial_evaluations": nontrivial,
            "library_executions": execs,
            "seam_events": events,
            "runs_per_hour": if wall > 0.0 { (runs as f64 / wall * 3600.0) as u64 } else { 0 },
            "seeds": seeds,
            "simulated_time": "not applicable: the system under simulation has no clock; progress is measured in seam events",
            "interleavings_measure": "distinct conversation shapes (see rule); the library has no threads, so no thread interleavings exist to count",
            "fault_kinds_fired": faults,
            "probes": probes,
            "counters": other,
            "per_build": per_build,
            "components_real": pl.real,
            "components_stub": pl.stub,
            "known_findings_hit": known_hits,
            "violations_total_before_dedup": vcount,
            "stopped_early_by_wall_cap": stopped_early,
            "exhaustive": false
        },
        "assumptions": pl.assumptions,
    });
    let _ = std::fs::create_dir_all(&evidence_dir);
    std::fs::write(evidence_dir.join(format!("{prop}.json")), serde_json::to_string_pretty(&ev).unwrap()).expect("write evidence");
    println!(
        "sim check {prop} {tier}: evaluations={runs} distinct_nontrivial={} executions={execs} events={events} unlisted_violations={unlisted} known={known_hits} wall={wall:.1}s",
        shapes.len()
    );
    for h in harness.iter().take(20) {
        eprintln!("HARNESS ERROR: {h}");
    }
    // a violation that was replayed in a fresh process stands on its own, whatever else went wrong
    if unlisted > 0 {
        return 1;
    }
    if !harness.is_empty() {
        return 2;
    }
    if runs == 0 {
        eprintln!("HARNESS ERROR: no runs executed");
        return 2;
    }
    0
}

fn cmd_selftest(a: &[String]) -> i32 {
    let quick = a.iter().any(|x| x == "--quick");
    let verif = PathBuf::from(flag(a, "--verif").unwrap_or_else(|| "/verif".into()));
    // 1. stub fidelity against real derived types
    match selftest::fidelity() {
        Ok(n) => println!("selftest: stub fidelity ok ({n} trace comparisons against real #[derive] types, build {})", build_name()),
        Err(e) => {
            eprintln!("HARNESS ERROR: stub fidelity: {e}");
            return 2;
        }
    }
    // 2. determinism: same runs, other processes / worker counts / order / heap layout -> same digests
    let bins: BTreeMap<String, PathBuf> = flag(a, "--bins")
        .unwrap_or_default()
        .split(',')
        .filter(|s| !s.is_empty())
        .map(|kv| {
            let (k, v) = kv.split_once('=').expect("--bins name=path");
            (k.to_string(), PathBuf::from(v))
        })
        .collect();
    let seed = env_seed();
    let work = verif.join("work").join("selftest");
    let builds: Vec<&str> = if quick { vec!["default"] } else { vec!["default", "preserve_order"] };
    let mut compared = 0u64;
    for b in builds {
        let exe = match bins.get(b) {
            Some(e) => e.clone(),
            None => std::env::current_exe().unwrap(),
        };
        for prop in ["C07", "C13", "C14", "C15", "C17"] {
            let n: u64 = match (prop, quick) {
                ("C15", true) => 300,
                ("C15", false) => 3000,
                (_, true) => 3000,
                (_, false) => 40_000,
            };
            let configs: Vec<(&str, u64, &str)> = if quick { vec![("0", 16, "0"), ("32", 3, "1")] } else { vec![("0", 16, "0"), ("32", 3, "1"), ("8", 1, "0")] };
            let mut maps: Vec<BTreeMap<u64, u64>> = Vec::new();
            for (k, (pad, nw, rev)) in configs.iter().enumerate() {
                let wd = work.join(format!("{b}-{prop}-{k}"));
                let outf = work.join(format!("{b}-{prop}-{k}.json"));
                let _ = std::fs::create_dir_all(&work);
                let st = std::process::Command::new(&exe)
                    .env("SIM_ALLOC_PAD", pad)
                    .env("SIM_NO_MINIMISE", "1")
                    .args(["batch", prop, "quick", &seed.to_string(), &nw.to_string(), &n.to_string()])
                    .arg(&wd)
                    .arg(work.join("replays"))
                    .args(["600", "1", rev])
                    .arg(&outf)
                    .status();
                match st {
                    Ok(st) if st.success() => match std::fs::read_to_string(&outf).ok().and_then(|t| serde_json::from_str::<BatchOut>(&t).ok()) {
                        Some(bo) => maps.push(bo.digests),
                        None => {
                            eprintln!("HARNESS ERROR: selftest batch {b}/{prop}/{k}: unreadable output");
                            return 2;
                        }
                    },
                    other => {
                        eprintln!("HARNESS ERROR: selftest batch {b}/{prop}/{k}: {other:?}");
                        return 2;
                    }
                }
                let _ = std::fs::remove_dir_all(&wd);
                let _ = std::fs::remove_file(&outf);
            }
            for m in &maps[1..] {
                if m.len() != maps[0].len() {
                    eprintln!("HARNESS ERROR: determinism: {prop} ({b}) executed {} vs {} runs", maps[0].len(), m.len());
                    return 2;
                }
                for (i, d) in &maps[0] {
                    compared += 1;
                    if m.get(i) != Some(d) {
                        eprintln!("HARNESS ERROR: determinism: {prop} ({b}) run {i} has digest {d:#x} in one process and {:?} in another (different worker count / order / allocator padding)", m.get(i));
                        return 2;
                    }
                }
            }
        }
    }
    let _ = std::fs::remove_dir_all(&work);
    println!("selftest: determinism ok ({compared} run digests equal across processes, worker counts 16/3{}, forward/reverse order, allocator padding 0/32{})", if quick { "" } else { "/1" }, if quick { "" } else { "/8" });
    0
}
