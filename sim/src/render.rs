//! Human-readable rendering of a type description as the equivalent Rust declarations.

use crate::types::*;

pub fn rust_ty(t: &Ty, decls: &mut Vec<String>) -> String {
    match t {
        Ty::Bool => "bool".into(),
        Ty::I8 => "i8".into(),
        Ty::I16 => "i16".into(),
        Ty::I32 => "i32".into(),
        Ty::I64 => "i64".into(),
        Ty::U8 => "u8".into(),
        Ty::U16 => "u16".into(),
        Ty::U32 => "u32".into(),
        Ty::U64 => "u64".into(),
        Ty::I128 => "i128".into(),
        Ty::U128 => "u128".into(),
        Ty::F32 => "f32".into(),
        Ty::F64 => "f64".into(),
        Ty::Char => "char".into(),
        Ty::Str => "String".into(),
        Ty::Datetime => "toml::value::Datetime".into(),
        Ty::Date => "toml::value::Date".into(),
        Ty::Time => "toml::value::Time".into(),
        Ty::Option(t) => format!("Option<{}>", rust_ty(t, decls)),
        Ty::Seq(t) => format!("Vec<{}>", rust_ty(t, decls)),
        Ty::Tuple(ts) => format!("({},)", ts.iter().map(|t| rust_ty(t, decls)).collect::<Vec<_>>().join(", ")),
        Ty::TupleStruct(n, ts) => {
            let d = format!("struct {n}({});", ts.iter().map(|t| rust_ty(t, decls)).collect::<Vec<_>>().join(", "));
            decls.push(d);
            n.clone()
        }
        Ty::Map(k, t) => {
            let ks = match k {
                KeyTy::Str => "String".to_string(),
                KeyTy::SpannedStr => "toml::Spanned<String>".to_string(),
                KeyTy::NewtypeSpanned(n) => {
                    decls.push(format!("struct {n}(toml::Spanned<String>);"));
                    n.clone()
                }
                KeyTy::UnitVariant(n, vs) => {
                    decls.push(format!("enum {n} {{ {} }}", vs.iter().map(|v| format!("#[serde(rename = {v:?})] _{}", ident(v))).collect::<Vec<_>>().join(", ")));
                    n.clone()
                }
                KeyTy::NewtypeStr(n) => {
                    decls.push(format!("struct {n}(String);"));
                    n.clone()
                }
                KeyTy::I64 => "i64".into(),
                KeyTy::SpannedI64 => "toml::Spanned<i64>".into(),
                KeyTy::SpannedKey(k) => {
                    let inner = rust_ty(&Ty::Map((**k).clone(), Box::new(Ty::Bool)), decls);
                    let inner = inner.trim_start_matches("BTreeMap<").rsplit_once(", ").map(|x| x.0.to_string()).unwrap_or_default();
                    format!("toml::Spanned<{inner}>")
                }
                KeyTy::Bool => "bool".into(),
                KeyTy::Char => "char".into(),
            };
            format!("BTreeMap<{ks}, {}>", rust_ty(t, decls))
        }
        Ty::Struct(n, fs) => {
            let body = fs.iter().map(|(f, t)| format!("#[serde(rename = {f:?})] {}: {}", ident(f), rust_ty(t, decls))).collect::<Vec<_>>().join(", ");
            decls.push(format!("struct {n} {{ {body} }}"));
            n.clone()
        }
        Ty::Newtype(n, t) => {
            let d = format!("struct {n}({});", rust_ty(t, decls));
            decls.push(d);
            n.clone()
        }
        Ty::Enum(n, vs) => {
            let body = vs
                .iter()
                .map(|(v, vt)| {
                    let p = match vt {
                        VarTy::Unit => String::new(),
                        VarTy::Newtype(t) => format!("({})", rust_ty(t, decls)),
                        VarTy::Tuple(ts) => format!("({})", ts.iter().map(|t| rust_ty(t, decls)).collect::<Vec<_>>().join(", ")),
                        VarTy::Struct(fs) => format!(
                            " {{ {} }}",
                            fs.iter().map(|(f, t)| format!("#[serde(rename = {f:?})] {}: {}", ident(f), rust_ty(t, decls))).collect::<Vec<_>>().join(", ")
                        ),
                    };
                    format!("#[serde(rename = {v:?})] _{}{p}", ident(v))
                })
                .collect::<Vec<_>>()
                .join(", ");
            decls.push(format!("enum {n} {{ {body} }}"));
            n.clone()
        }
        Ty::Unit => "()".into(),
        Ty::UnitStruct(n) => {
            decls.push(format!("struct {n};"));
            n.clone()
        }
        Ty::Any => "toml::Value".into(),
        Ty::Spanned(t) => format!("toml::Spanned<{}>", rust_ty(t, decls)),
    }
}

fn ident(s: &str) -> String {
    let mut o: String = s.chars().map(|c| if c.is_ascii_alphanumeric() || c == '_' { c } else { '_' }).collect();
    if o.is_empty() || o.chars().next().unwrap().is_ascii_digit() {
        o.insert(0, 'f');
    }
    o
}

pub fn rust_decl(t: &Ty) -> String {
    let mut decls = Vec::new();
    let root = rust_ty(t, &mut decls);
    decls.dedup();
    format!("{root}  where  {}", decls.join("  "))
}
