//! The small executable reference model: `model(T, v)` — the tree the documented serde -> TOML
//! mapping assigns to a value (appendix C) — the must-succeed class (appendix D), and the
//! three-valued reference reader `refread(T, tree)`.

use crate::types::*;

/// `None` = ⊥ (no TOML image: the serializer must fail, or whatever it prints must still read back)
pub fn model(ty: &Ty, v: &Val) -> Option<Tree> {
    Some(match (ty, v) {
        (Ty::Bool, Val::Bool(b)) => Tree::Bool(*b),
        (t, Val::Int(i)) if t.is_int() => {
            if matches!(t, Ty::I128 | Ty::U128) {
                return None;
            }
            Tree::Int(i64::try_from(*i).ok()?)
        }
        (Ty::F32, Val::F32(b)) => Tree::Float(canon_f64(f32::from_bits(*b) as f64)),
        (Ty::F64, Val::F64(b)) => Tree::Float(canon_f64(f64::from_bits(*b))),
        (Ty::Char, Val::Char(c)) => Tree::Str(c.to_string()),
        (Ty::Str, Val::Str(s)) => Tree::Str(s.clone()),
        (Ty::Datetime | Ty::Date | Ty::Time, Val::Dt(d)) => {
            if !d.kind_ok() {
                return None;
            }
            Tree::Dt(*d)
        }
        (Ty::Option(_), Val::None) => return None, // only representable as an absent struct field (handled by the parent)
        (Ty::Option(t), Val::Some(x)) => model(t, x)?,
        (Ty::Seq(t), Val::Seq(xs)) => Tree::Arr(xs.iter().map(|x| model(t, x)).collect::<Option<Vec<_>>>()?),
        (Ty::Tuple(ts), Val::Seq(xs)) | (Ty::TupleStruct(_, ts), Val::Seq(xs)) => {
            Tree::Arr(ts.iter().zip(xs).map(|(t, x)| model(t, x)).collect::<Option<Vec<_>>>()?)
        }
        (Ty::Map(kt, vt), Val::Map(kvs)) => {
            let mut out = Vec::new();
            for (k, x) in kvs {
                let ks = key_string(kt, k)?;
                out.push((ks, model(vt, x)?));
            }
            Tree::Tab(out)
        }
        (Ty::Struct(_, fs), Val::Struct(xs)) => Tree::Tab(model_fields(fs, xs)?),
        (Ty::Newtype(_, t), x) => model(t, x)?,
        (Ty::Spanned(t), Val::Spanned(_, _, x)) => model(t, x)?,
        (Ty::Spanned(t), x) => model(t, x)?,
        (Ty::Enum(_, vars), Val::Variant(i, p)) => {
            let (name, vt) = &vars[*i];
            match (vt, &**p) {
                (VarTy::Unit, _) => Tree::Str(name.clone()),
                (VarTy::Newtype(t), x) => Tree::Tab(vec![(name.clone(), model(t, x)?)]),
                (VarTy::Tuple(ts), Val::Seq(xs)) => {
                    Tree::Tab(vec![(name.clone(), Tree::Arr(ts.iter().zip(xs).map(|(t, x)| model(t, x)).collect::<Option<Vec<_>>>()?))])
                }
                (VarTy::Struct(fs), Val::Struct(xs)) => Tree::Tab(vec![(name.clone(), Tree::Tab(model_fields(fs, xs)?))]),
                _ => return None,
            }
        }
        (Ty::Unit, _) | (Ty::UnitStruct(_), _) => return None,
        (Ty::Any, Val::Any(t)) => t.clone(),
        _ => return None,
    })
}

fn model_fields(fs: &[(String, Ty)], xs: &[Val]) -> Option<Vec<(String, Tree)>> {
    let mut out = Vec::new();
    for ((f, t), x) in fs.iter().zip(xs) {
        if crate::seam::is_private_key(f) {
            return None;
        }
        match (t, x) {
            (Ty::Option(_), Val::None) => {} // key absent
            _ => out.push((f.clone(), model(t, x)?)),
        }
    }
    Some(out)
}

pub fn key_string(kt: &KeyTy, k: &Val) -> Option<String> {
    match (kt, k) {
        (KeyTy::SpannedKey(ik), Val::Spanned(_, _, x)) => key_string(ik, x),
        (KeyTy::SpannedKey(ik), x) => key_string(ik, x),
        (KeyTy::SpannedStr, Val::Spanned(_, _, x)) | (KeyTy::NewtypeSpanned(_), Val::Spanned(_, _, x)) => key_string(&KeyTy::Str, x),
        (KeyTy::Str, Val::Str(s)) | (KeyTy::NewtypeStr(_), Val::Str(s)) | (KeyTy::SpannedStr, Val::Str(s)) | (KeyTy::NewtypeSpanned(_), Val::Str(s)) => {
            if crate::seam::is_private_key(s) {
                None
            } else {
                Some(s.clone())
            }
        }
        (KeyTy::UnitVariant(_, vars), Val::Variant(i, _)) => Some(vars[*i].clone()),
        _ => None,
    }
}

pub fn ok_root(ty: &Ty) -> bool {
    match ty {
        Ty::Struct(..) => true,
        Ty::Map(KeyTy::Str | KeyTy::NewtypeStr(_) | KeyTy::UnitVariant(..) | KeyTy::SpannedStr | KeyTy::NewtypeSpanned(_), _) => true,
        Ty::Newtype(_, t) => ok_root(t),
        _ => false,
    }
}

fn all_dt_in_range(v: &Val) -> bool {
    match v {
        Val::Dt(d) => d.in_range(),
        Val::Some(x) | Val::Variant(_, x) | Val::Spanned(_, _, x) => all_dt_in_range(x),
        Val::Seq(xs) | Val::Struct(xs) => xs.iter().all(all_dt_in_range),
        Val::Map(kvs) => kvs.iter().all(|(_, x)| all_dt_in_range(x)),
        Val::Any(t) => tree_dt_in_range(t),
        _ => true,
    }
}
fn tree_dt_in_range(t: &Tree) -> bool {
    match t {
        Tree::Dt(d) => d.in_range(),
        Tree::Arr(a) => a.iter().all(tree_dt_in_range),
        Tree::Tab(kvs) => kvs.iter().all(|(_, x)| tree_dt_in_range(x)),
        _ => true,
    }
}

/// value-aware root test: besides table types, an externally tagged *newtype variant* at the root is
/// a one-key table (`Variant = payload`)
pub fn ok_root_val(ty: &Ty, v: &Val) -> bool {
    if ok_root(ty) {
        return true;
    }
    match (ty, v) {
        (Ty::Enum(_, vars), Val::Variant(i, _)) => matches!(vars[*i].1, VarTy::Newtype(_)),
        (Ty::Newtype(_, t), x) => ok_root_val(t, x),
        _ => false,
    }
}

/// Appendix D: the class of scenarios on which every serializer must succeed.
pub fn must_succeed(ty: &Ty, v: &Val) -> bool {
    ok_root_val(ty, v) && model(ty, v).is_some() && all_dt_in_range(v)
}

/// Does the value contain a date-time leaf (for probes / route restrictions)?
pub fn has_dt(v: &Val) -> bool {
    match v {
        Val::Dt(_) => true,
        Val::Some(x) | Val::Variant(_, x) | Val::Spanned(_, _, x) => has_dt(x),
        Val::Seq(xs) | Val::Struct(xs) => xs.iter().any(has_dt),
        Val::Map(kvs) => kvs.iter().any(|(_, x)| has_dt(x)),
        Val::Any(t) => tree_has_dt(t),
        _ => false,
    }
}
pub fn tree_has_dt(t: &Tree) -> bool {
    match t {
        Tree::Dt(_) => true,
        Tree::Arr(a) => a.iter().any(tree_has_dt),
        Tree::Tab(kvs) => kvs.iter().any(|(_, x)| tree_has_dt(x)),
        _ => false,
    }
}

// ------------------------------------------------------------------------------------------------
// Reference reader
// ------------------------------------------------------------------------------------------------

#[derive(Clone, Debug, PartialEq)]
pub enum RefOut {
    /// a well-behaved reader of this type must obtain exactly this
    Val(Val),
    /// no route may return Ok
    Mismatch,
    /// no document fixes the outcome; only agreement among successful routes is asserted
    Unspecified,
}

macro_rules! sub {
    ($e:expr) => {
        match $e {
            RefOut::Val(v) => v,
            other => return other,
        }
    };
}

/// What a reader of type `ty` obtains from the decoded `tree` (appendix C, inverse reading).
/// Deliberately conservative: anything the documentation does not pin down is `Unspecified`.
pub fn refread(ty: &Ty, tree: &Tree) -> RefOut {
    use RefOut::*;
    match (ty, tree) {
        (Ty::Bool, Tree::Bool(b)) => Val(crate::types::Val::Bool(*b)),
        (t, Tree::Int(i)) if t.is_int() => {
            let (lo, hi) = t.int_range();
            if (*i as i128) >= lo && (*i as i128) <= hi {
                Val(crate::types::Val::Int(*i as i128))
            } else {
                Mismatch
            }
        }
        (Ty::F64, Tree::Float(f)) => Val(crate::types::Val::F64(*f)),
        (Ty::F64, Tree::Int(i)) => Val(crate::types::Val::F64((*i as f64).to_bits())),
        (Ty::F32, Tree::Float(f)) => Val(crate::types::Val::F32((f64::from_bits(*f) as f32).to_bits())),
        (Ty::F32, Tree::Int(i)) => Val(crate::types::Val::F32((*i as f32).to_bits())),
        (Ty::Str, Tree::Str(s)) => Val(crate::types::Val::Str(s.clone())),
        (Ty::Char, Tree::Str(s)) => {
            let mut it = s.chars();
            match (it.next(), it.next()) {
                (Some(c), None) => Val(crate::types::Val::Char(c)),
                _ => Mismatch,
            }
        }
        (Ty::Datetime, Tree::Dt(d)) => Val(crate::types::Val::Dt(*d)),
        (Ty::Date, Tree::Dt(d)) => {
            if d.date.is_some() && d.time.is_none() && d.offset.is_none() {
                Val(crate::types::Val::Dt(*d))
            } else {
                Mismatch
            }
        }
        (Ty::Time, Tree::Dt(d)) => {
            if d.date.is_none() && d.time.is_some() && d.offset.is_none() {
                Val(crate::types::Val::Dt(*d))
            } else {
                Mismatch
            }
        }
        // a date-time read as a string / a string read as a date-time: routes legitimately differ
        (Ty::Str | Ty::Char, Tree::Dt(_)) | (Ty::Datetime | Ty::Date | Ty::Time, Tree::Str(_)) => Unspecified,
        (Ty::Option(t), x) => Val(crate::types::Val::Some(Box::new(sub!(refread(t, x))))),
        (Ty::Seq(t), Tree::Arr(xs)) => {
            let mut out = Vec::new();
            for x in xs {
                out.push(sub!(refread(t, x)));
            }
            Val(crate::types::Val::Seq(out))
        }
        (Ty::Tuple(ts), Tree::Arr(xs)) | (Ty::TupleStruct(_, ts), Tree::Arr(xs)) => {
            if xs.len() < ts.len() {
                return Mismatch;
            }
            if xs.len() > ts.len() {
                // trailing elements: toml_edit ignores them, toml::Value rejects an undrained sequence
                return Unspecified;
            }
            let mut out = Vec::new();
            for (t, x) in ts.iter().zip(xs) {
                out.push(sub!(refread(t, x)));
            }
            Val(crate::types::Val::Seq(out))
        }
        (Ty::Map(kt, vt), Tree::Tab(kvs)) => {
            let mut out = Vec::new();
            let kt = &kt.despanned();
            for (k, x) in kvs {
                let kv = match kt {
                    KeyTy::SpannedKey(_) => return Unspecified,
                    KeyTy::Str | KeyTy::NewtypeStr(_) | KeyTy::SpannedStr | KeyTy::NewtypeSpanned(_) => crate::types::Val::Str(k.clone()),
                    KeyTy::UnitVariant(_, vars) => match vars.iter().position(|v| v == k) {
                        Some(i) => crate::types::Val::Variant(i, Box::new(crate::types::Val::Unit)),
                        None => return Mismatch,
                    },
                    KeyTy::I64 | KeyTy::Bool | KeyTy::SpannedI64 => return Mismatch,
                    KeyTy::Char => {
                        let mut it = k.chars();
                        match (it.next(), it.next()) {
                            (Some(c), None) => crate::types::Val::Char(c),
                            _ => return Mismatch,
                        }
                    }
                };
                out.push((kv, sub!(refread(vt, x))));
            }
            Val(crate::types::Val::Map(out))
        }
        (Ty::Struct(_, fs), Tree::Tab(kvs)) => {
            let r = ref_fields(fs, kvs, false);
            r
        }
        (Ty::Struct(_, fs), Tree::Arr(xs)) => {
            // positional struct from an array (serde_derive's visit_seq)
            if xs.len() < fs.len() {
                return Mismatch;
            }
            if xs.len() > fs.len() {
                return Unspecified;
            }
            let mut out = Vec::new();
            for ((_, t), x) in fs.iter().zip(xs) {
                out.push(sub!(refread(t, x)));
            }
            Val(crate::types::Val::Struct(out))
        }
        (Ty::Newtype(_, t), x) => refread(t, x),
        (Ty::Enum(_, vars), Tree::Str(s)) => match vars.iter().position(|(n, _)| n == s) {
            Some(i) => match &vars[i].1 {
                VarTy::Unit => Val(crate::types::Val::Variant(i, Box::new(crate::types::Val::Unit))),
                _ => Mismatch,
            },
            None => Mismatch,
        },
        (Ty::Enum(_, vars), Tree::Tab(kvs)) => {
            if kvs.len() != 1 {
                return if kvs.is_empty() { Mismatch } else { Unspecified };
            }
            let (k, x) = &kvs[0];
            let i = match vars.iter().position(|(n, _)| n == k) {
                Some(i) => i,
                None => return Mismatch,
            };
            let payload = match (&vars[i].1, x) {
                // `V = {}` / `V = []` accepted as unit by the library: not documented either way
                (VarTy::Unit, _) => return Unspecified,
                (VarTy::Newtype(t), x) => sub!(refread(t, x)),
                (VarTy::Tuple(ts), Tree::Arr(xs)) => {
                    if xs.len() != ts.len() {
                        return Mismatch;
                    }
                    let mut out = Vec::new();
                    for (t, x) in ts.iter().zip(xs) {
                        out.push(sub!(refread(t, x)));
                    }
                    crate::types::Val::Seq(out)
                }
                // tuple variant from a table with numeric keys: undocumented
                (VarTy::Tuple(_), Tree::Tab(_)) => return Unspecified,
                (VarTy::Tuple(_), _) => return Mismatch,
                (VarTy::Struct(fs), Tree::Tab(kvs)) => sub!(ref_fields(fs, kvs, true)),
                (VarTy::Struct(_), Tree::Arr(_)) => return Unspecified,
                (VarTy::Struct(_), _) => return Mismatch,
            };
            Val(crate::types::Val::Variant(i, Box::new(payload)))
        }
        (Ty::Unit, _) | (Ty::UnitStruct(_), _) => Mismatch,
        (Ty::Any, t) => Val(crate::types::Val::Any(t.clone())),
        (Ty::Spanned(t), x) => refread(t, x),
        (Ty::I128 | Ty::U128, _) => Unspecified,
        _ => Mismatch,
    }
}

fn ref_fields(fs: &[(String, Ty)], kvs: &[(String, Tree)], variant: bool) -> RefOut {
    // unknown keys: ignored for structs; for struct variants toml_edit rejects them while
    // toml::Value ignores them -> unspecified
    if variant && kvs.iter().any(|(k, _)| !fs.iter().any(|(f, _)| f == k)) {
        return RefOut::Unspecified;
    }
    let mut out = Vec::new();
    for (f, t) in fs {
        match kvs.iter().find(|(k, _)| k == f) {
            Some((_, x)) => out.push(sub!(refread(t, x))),
            None => match t {
                Ty::Option(_) => out.push(Val::None),
                _ => return RefOut::Mismatch,
            },
        }
    }
    RefOut::Val(Val::Struct(out))
}
