#!/bin/sh
# usage: run_seed_iso.sh <seed id> <property> [tier] — like run_seed.sh but in a scratch worktree of /repo
# (VERIF_REPO), with its own build, work, replay and evidence directories (fixed worktree path, so builds are incremental and one instance runs at a time): /repo and the registered files
# are never touched, so it can run next to other work.
ID="$1"; P="$2"; T="${3:-quick}"
WT=/tmp/rs_wt
git -C /repo worktree remove --force $WT >/dev/null 2>&1
git -C /repo worktree add --detach $WT HEAD >/dev/null 2>&1 || exit 2
if ! git -C $WT apply /verif/seeded/$ID/patch.diff 2>/dev/null; then echo "$ID $P $T patch does not apply"; git -C /repo worktree remove --force $WT; exit 0; fi
mkdir -p /verif/work/seedruns /verif/work/iso-evidence /verif/work/iso-replays
VERIF_REPO=$WT VERIF_WORK_TAG=-iso VERIF_REPLAY_DIR=/verif/work/iso-replays VERIF_EVIDENCE_DIR=/verif/work/iso-evidence /verif/bin/check $P $T > /verif/work/seedruns/$ID-$P-$T.iso.log 2>&1; rc=$?
git -C /repo worktree remove --force $WT
echo "$ID $P $T exit=$rc $(grep -m1 '^--- violation' /verif/work/seedruns/$ID-$P-$T.iso.log | cut -c1-160)"
rm -rf /verif/work/iso-replays/*
