#!/bin/sh
# usage: triage.sh <source dir with patch.diff/demo.rs/notes.md> <seed id> <property> — confirm, store under seeded/, run the check
SRC="$1"; ID="$2"; P="$3"
/verif/tools/confirm_seed.sh "$SRC" /tmp/seedres/$ID.txt
echo "$ID confirm: $(cat /tmp/seedres/$ID.txt)"
d=/verif/seeded/$ID; mkdir -p $d; cp "$SRC/patch.diff" "$SRC/demo.rs" "$SRC/notes.md" $d/ 2>/dev/null
/verif/tools/run_seed.sh $ID $P
