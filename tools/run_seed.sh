#!/bin/sh
# usage: run_seed.sh <seed dir name under /verif/seeded> <property> [tier]
# Applies the seeded change to /repo, runs the property's check, and undoes the change straight afterwards.
D=/verif/seeded/$1; P=$2; T=${3:-quick}
cd /repo || exit 2
if [ -n "$(git status --porcelain)" ]; then echo "repo not clean"; exit 2; fi
git apply "$D/patch.diff" || { echo "patch does not apply"; exit 2; }
mkdir -p /verif/work/seedruns
# evidence written while a seeded change is applied is not evidence about /repo: keep the committed file
cp /verif/evidence/$P.json /verif/work/seedruns/.evidence-$P.bak 2>/dev/null
/verif/bin/check $P $T > /verif/work/seedruns/$1-$P-$T.log 2>&1; rc=$?
git -C /repo checkout -- .
cp /verif/work/seedruns/.evidence-$P.bak /verif/evidence/$P.json 2>/dev/null
viol=$(grep -c '^VIOLATION' /verif/work/seedruns/$1-$P-$T.log)
echo "$1 $P $T exit=$rc violation_lines=$viol $(grep -m1 -o 'signature=[^ ]*\|^--- violation.*' /verif/work/seedruns/$1-$P-$T.log | head -1)"
# replay files produced against a seeded tree are not evidence about /repo: remove them
grep '^VIOLATION' /verif/work/seedruns/$1-$P-$T.log | sed 's/.*replay=//' | sort -u | while read f; do rm -f "$f"; done
exit 0
