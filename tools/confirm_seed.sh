#!/bin/sh
# usage: confirm_seed.sh <seed dir with patch.diff + demo.rs + notes.md> <outfile>
# Confirms in a scratch worktree of /repo HEAD: patch applies, workspace compiles, existing suite passes,
# demo fails with the patch and passes without it.
D="$1"; OUT="$2"
WT=/tmp/cs_wt
git -C /repo worktree remove --force $WT 2>/dev/null
git -C /repo worktree add --detach $WT HEAD >/dev/null 2>&1 || { echo "worktree failed" > "$OUT"; exit 2; }
export CARGO_TARGET_DIR=/tmp/cs_target
cd $WT
res=""
if ! git apply --check "$D/patch.diff" 2>/dev/null; then echo "patch_applies=no" > "$OUT"; git -C /repo worktree remove --force $WT; exit 1; fi
git apply "$D/patch.diff"
# existing suite with the patch
suite=$(cargo test --workspace --no-fail-fast --offline 2>&1 | awk '/^test result:/ { gsub(/\033\[[0-9;]*m/,""); for(i=1;i<=NF;i++){ if($i=="passed;")p+=$(i-1); if($i=="failed;")f+=$(i-1)} } /^error/ {e=1} END { printf "passed=%d failed=%d builderror=%d", p, f, e }')
# demo with the patch
if grep -q 'fn main' "$D/demo.rs" && ! grep -q '#\[test\]' "$D/demo.rs"; then
  mkdir -p crates/toml_edit/examples; cp "$D/demo.rs" crates/toml_edit/examples/demo.rs
  DEMO="cargo run --offline -q -p toml_edit --example demo --features serde"
else
  cp "$D/demo.rs" crates/toml/tests/demo.rs
  DEMO="cargo test --offline -q -p toml --test demo"
fi
$DEMO >/tmp/cs_demo_with.log 2>&1; with=$?
git apply -R "$D/patch.diff"
$DEMO >/tmp/cs_demo_without.log 2>&1; without=$?
echo "patch_applies=yes suite_with_patch: $suite demo_exit_with_patch=$with demo_exit_without_patch=$without" > "$OUT"
cd /; git -C /repo worktree remove --force $WT
