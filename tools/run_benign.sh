#!/bin/sh
# usage: run_benign.sh <dir with patch.diff> <label> — applies a property-PRESERVING change in a scratch
# worktree and runs all five checks (or those in $CHECKS), isolated. Every check must exit 0.
SRC="$1"; L="$2"
WT=/tmp/bn_wt
git -C /repo worktree remove --force $WT >/dev/null 2>&1
git -C /repo worktree add --detach $WT HEAD >/dev/null 2>&1 || exit 2
if ! git -C $WT apply "$SRC/patch.diff" 2>/dev/null; then echo "$L: patch does not apply to HEAD"; git -C /repo worktree remove --force $WT; exit 0; fi
mkdir -p /verif/work/seedruns /verif/work/bn-evidence /verif/work/bn-replays
for P in ${CHECKS:-C07 C13 C14 C15 C17}; do
  VERIF_REPO=$WT VERIF_WORK_TAG=-benign VERIF_REPLAY_DIR=/verif/work/bn-replays VERIF_EVIDENCE_DIR=/verif/work/bn-evidence /verif/bin/check $P quick > /verif/work/seedruns/benign-$L-$P.log 2>&1; rc=$?
  echo "benign-$L $P exit=$rc $(grep -m1 '^--- violation' /verif/work/seedruns/benign-$L-$P.log | cut -c1-200)"
done
git -C /repo worktree remove --force $WT
