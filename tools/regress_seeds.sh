#!/bin/sh
# Re-runs every seeded change (or those whose id matches the optional shell pattern $1, e.g. 'C15-*')
# against the check named in its meta.json (isolated), prints one line each.
PAT="${1:-*}"
cd /verif/seeded || exit 2
for d in $PAT/; do
  id=${d%/}
  p=$(python3 -c "import json;print(json.load(open('$id/meta.json'))['breaks_property'])" 2>/dev/null) || continue
  # C17-a3 and some others are caught by a neighbouring check as recorded in meta.json; the primary property is tried
  /verif/tools/run_seed_iso.sh $id $p
done
